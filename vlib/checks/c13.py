"""C13 - Number <-> text conversions are exact.

E1: a deterministic structured set of doubles x a grid of conversions, every conversion executed on the real engine
(generic `vrun` jobs, fresh context per batch) and compared with the exact integer reference in `vlib/c13_numref.py`.

Families of doubles (bit patterns; see `gen_values`): 2^e and +-1 ulp, 10^k and +-1 ulp, d*10^k at the 1e21 / 1e-7 notation
thresholds, single-bit subnormals and the subnormal/normal border, 2^53 +-3 ulp, i32/u32 border integers, classic
tie / halfway decimals, three mantissa patterns per exponent, a dyadic grid and small integers (radix conversions), and
the negative counterparts; NaN, +-Infinity, +-0.

Families of texts (see `gen_texts`): shortest forms, 17-digit forms extended to 18..20 digits, decimal expansions of the
exact midpoint between neighbouring doubles cut to 17..20 digits (below) and incremented (above), complete midpoints,
range borders (1e400, 4.9e-324, 2.4703282292062327e-324, ...), and integer texts for parseInt in radixes 2..36.

Bit patterns enter a script as two 32-bit integers and are assembled through a Float64Array over a Uint32Array; parsed
numbers leave as the two 32-bit halves read back through the same kind of view, so no text conversion is trusted on the
way in or out (apart from printing integers below 2^32).
"""
import json, os, re, shutil, subprocess, sys, multiprocessing
from .. import core
from .. import c13_numref as R

PACKAGES = ("vrun",)

FULL_F = list(range(0, 101))
FULL_E = list(range(0, 101))
FULL_P = list(range(1, 101))
QUICK_F = [0, 1, 2, 3, 4, 5, 6, 7, 8, 9, 10, 12, 14, 15, 16, 17, 18, 19, 20, 21, 22, 23, 25, 30, 35, 40, 50, 60, 75, 90, 99, 100]
QUICK_E = QUICK_F
QUICK_P = [1, 2, 3, 4, 5, 6, 7, 8, 9, 10, 12, 14, 15, 16, 17, 18, 19, 20, 21, 22, 23, 25, 30, 35, 40, 50, 60, 75, 90, 99, 100]
R_ALL = [r for r in range(2, 37) if r != 10]
R_P2 = [2, 4, 8, 16, 32]

CLASSICS = """0.5 1.5 2.5 3.5 4.5 0.05 0.15 0.25 0.35 0.45 0.55 0.125 0.375 0.0625 1.005 1.45 8.345 0.000001 0.0000001 123.456
1e21 1e-7 5e-324 1.7976931348623157e308 2.2250738585072014e-308 2.225073858507201e-308 0.1 0.2 0.3 0.7 1234.5678 0.000001234
25 35 45.5 0.5e-6 4.35 0.615 1.255 10.235 1.0000000000000002 0.9999999999999999 999999999999999900000 123456789012345680000
999999999999999868928 5e-7 1.5e-7 9.5e-7 9.95e-7 99.99 999.9999 0.99 0.999 9.999999e20 1e300 1e-300 3.141592653589793
2.718281828459045 1e15 1e16 1e17 123456789 0.30000000000000004 100 1000000 4294967295.5 2.5e20 1.5e21 2.5e-7 1.25e-7 0.0000125
1e22 1e23 8.41e21 2e23 9.5 99.5 999.5 0.95 0.995 0.9995 1.95 2.675 1.115 1.125 1.135 5e20 5.5e20 4.5e-7 0.45e-6 0.000001005
1.2345678901234567e-5 7.1e-5 0.00001 0.0000015 1e-10 1.5e-10 1e-20 1.25e-21 1e-22 1.5e-25 1e-100 1e-101 1e-99 1.5e-323
1e100 1.5e100 123456789012345678 12345678901234567890 295147905179352825856 1180591620717411303424 0.1e-6 7e-7 6.5e-7""".split()


# ---------------------------------------------------------------------------------------------------------
# enumeration
# ---------------------------------------------------------------------------------------------------------
def gen_values(tier):
    """-> list of (bits, family, flag); flag bit 0 = run every radix 2..36 (else only 2,4,8,16,32)."""
    thorough = tier == "thorough"
    out = {}

    def add(bits, fam, flag=0):
        if bits in out:
            if flag:
                out[bits] = (out[bits][0], out[bits][1] | flag)
            return
        out[bits] = (fam, flag)

    def around(b, fam, width=1):
        for d in range(-width, width + 1):
            c = b + d
            if 0 < c < R.INF_BITS:
                add(c, fam)

    # specials
    for b in (0, R.SIGN, R.NAN_BITS, R.INF_BITS, R.INF_BITS | R.SIGN):
        add(b, "special", 1)
    # powers of two
    crit2 = set(range(-1074, -1058)) | set(range(-1030, -1014)) | set(range(-112, 72)) | set(range(1014, 1024))
    for e in range(-1074, 1024):
        if thorough or e % 8 == 0 or e in crit2:
            around(R.compose(1, e), "pow2")
    # powers of ten
    for k in range(-324, 309):
        if thorough or k % 4 == 0 or -30 <= k <= 30:
            b = R.round_ratio(R.p10(k), 1) if k >= 0 else R.round_ratio(1, R.p10(-k))
            if 0 < b < R.INF_BITS:
                around(b, "pow10")
    # notation thresholds
    for k in list(range(18, 24)) + list(range(-9, -3)):
        for d in range(1, 10):
            b = R.round_ratio(d * R.p10(k), 1) if k >= 0 else R.round_ratio(d, R.p10(-k))
            around(b, "threshold")
    # subnormals
    for i in range(52):
        add(1 << i, "subnormal")
    for b in (1, 2, 3, R.TWO52 - 1, R.TWO52, R.TWO52 + 1):
        add(b, "subnormal")
    # 2^53 neighbourhood
    around(R.compose(1, 53), "two53", 3)
    # i32 / u32 borders
    for n in (2 ** 31 - 2, 2 ** 31 - 1, 2 ** 31, 2 ** 31 + 1, 2 ** 32 - 2, 2 ** 32 - 1, 2 ** 32, 2 ** 32 + 1, 2 ** 30, 65535, 65536,
              2 ** 24, 2 ** 24 + 1):
        add(R.int_to_bits(n), "i32", 1)
        add(R.compose(2 * n + 1, -1), "i32")  # n + 0.5
    # classics
    for t in CLASSICS:
        add(R.str_to_bits(t), "classic")
    # mantissa patterns per exponent
    for ef in range(1, 2047):
        if thorough or ef % 16 == 0:
            for pat in (0x5555555555555, 0xAAAAAAAAAAAAA, 0x8000000000000):
                add((ef << 52) | pat, "pattern")
    # dyadic grid (exact in every even radix when short) and integers: all radixes
    den, top = (64, 8) if thorough else (16, 4)
    for j in range(1, den * top + 1):
        add(R.compose(j, -den.bit_length() + 1), "dyadic", 1)
    for n in range(1, 41):
        add(R.int_to_bits(n), "integer", 1)
    for r in range(2, 37):
        k = 1
        while r ** k <= R.TWO53:
            kmax = k
            k += 1
        for k in range(1, kmax + 1):
            if thorough or k <= 3 or k == kmax:
                add(R.int_to_bits(r ** k), "integer", 1)
                add(R.int_to_bits(r ** k - 1), "integer", 1)
                if r ** k + 1 <= R.TWO53:
                    add(R.int_to_bits(r ** k + 1), "integer", 1)
    for n in (R.TWO53 - 1, R.TWO53, 10 ** 15, 10 ** 15 + 1, 123456789012345, 4503599627370497, 6004799503160661, 0xDEADBEEF, 0xCAFEBABE1234):
        add(R.int_to_bits(n), "integer", 1)
    # integers ending in 5: ties of toPrecision / toExponential
    for n in range(5, 1000 if thorough else 260, 10):
        add(R.int_to_bits(n), "tie5", 1)
    if thorough:
        for n in range(1005, 10000, 10):
            add(R.int_to_bits(n), "tie5", 1)
    pos = [(b, f, fl) for b, (f, fl) in out.items()]
    res = list(pos)
    i = 0
    for b, f, fl in pos:
        if b & R.SIGN or b == 0 or b == R.NAN_BITS or b == R.INF_BITS:
            continue
        if thorough or i % 4 == 0:
            res.append((b | R.SIGN, "neg-" + f, fl))
        i += 1
    return res


def _exp_form(digits, n):
    """text d.ddd e X of 0.digits * 10^n"""
    return digits[0] + ("." + digits[1:] if len(digits) > 1 else "") + "e" + str(n - 1)


def _pos_form(digits, n):
    """positional text of 0.digits * 10^n (no exponent part)"""
    if n <= 0:
        return "0." + "0" * (-n) + digits
    if n >= len(digits):
        return digits + "0" * (n - len(digits))
    return digits[:n] + "." + digits[n:]


def _incr(digits):
    s = str(int(digits) + 1)
    return s.rjust(len(digits), "0")


FIXED_TEXTS = """1234567890123456789 12345678901234567890 123456789012345678901234 9007199254740993 9007199254740995 9007199254740992
1e400 -1e400 1e309 1e308 1.7976931348623157e308 1.7976931348623158e308 1.797693134862315807e308 1.797693134862315808e308
1.7976931348623159e308 4.9e-324 5e-324 4e-324 3e-324 2.5e-324 2.4e-324 2.4703282292062327e-324 2.4703282292062328e-324
2.47032822920623272e-324 2.47032822920623273e-324 2.2250738585072011e-308 2.2250738585072012e-308 2.2250738585072014e-308
2.2250738585072009e-308 1e-324 1e-400 1e99999 1e-99999 0e99999 0.0e-99999 .5 5. 0.5 00.5 1e+3 1E3 1e-3 +1.5 -0 -0.0 0 0.0 -1e-400
100000000000000016777215 100000000000000016777216 100000000000000016777217 8.41e21 2e23 9e15 1e23 8.5e22
0.1 0.2 0.3 0.30000000000000004 1e21 1e-7 123456789012345678 18446744073709551615 18446744073709551616 18446744073709551617
9223372036854775807 9223372036854775808 4294967296 4294967295 2147483648 -2147483648 -2147483649
5e-325 5.0000000000000001e-324 7.4e-324 7.5e-324 9.8e-324 9.9e-324 1.5e-323
0.000001 0.0000001 179769313486231570000000000000000000000000000000000000000000000000000000000000000000000000000000000000000000000000000000000000000000000000000000000000000000000000000000000000000000000000000000000000000000000000000000000000000000000000000000000000000000000000000000000000000000000000000000000000
6.631236871469758276785396630275967243399099947355303144249971758736286630139265439618068200788048744105960420552601852889715006376325666595539603330361800519107591783233358492337208057849499360899425128640718856616503093444922854759159988160304439909868291973931426625698663157749836252274523485312442358651207051292453083278116143932569727918709786004497872322193856150225415211997283078496319412124640111777216148110752815101775295719811974338451936095907419622417538473679495148632480391435931767981122396703443803335529756003353209830071832230689201383015598792184172909927924176339315507402234836120730914783168400715462440053817592702766213559042115986763819482654128770595766806872783349146967171293949598850675682115696218943412532098591327667236328125E-316""".split()


JSON_RE = re.compile(r"^-?(0|[1-9]\d*)(\.\d+)?([eE][+-]?\d+)?$")
LIT_RE = re.compile(r"^([+-]?((0|[1-9]\d*)(\.\d*)?|\.\d+)([eE][+-]?\d+)?|0[xX][0-9a-fA-F]+|0[oO][0-7]+|0[bB][01]+)$")


def text_flags(t):
    """1 = the text is a (signed) numeric literal that may be evaluated as source, 2 = it is a JSON number"""
    return (1 if LIT_RE.match(t) else 0) | (2 if JSON_RE.match(t) else 0)


def gen_texts(tier):
    """-> list of (text, family, flags): flags 1 = valid source literal (eval), 2 = valid JSON number."""
    thorough = tier == "thorough"
    bases = {}
    for t in CLASSICS:
        bases.setdefault(R.str_to_bits(t) & ~R.SIGN, "classic")
    for k in range(-324, 309):
        if thorough or k % 16 == 0 or -3 <= k <= 3 or k in (21, 22, 23, -7, -6, 308, -323, -308):
            b = R.round_ratio(R.p10(k), 1) if k >= 0 else R.round_ratio(1, R.p10(-k))
            if 0 < b < R.INF_BITS:
                bases.setdefault(b, "pow10")
    for e in range(-1074, 1024):
        if (thorough and e % 4 == 0) or e % 64 == 0 or e in (-1074, -1073, -1023, -1022, 52, 53, 63, 64, 1023):
            bases.setdefault(R.compose(1, e), "pow2")
            if R.compose(1, e) > 1:
                bases.setdefault(R.compose(1, e) - 1, "pow2")
    bases.setdefault(0x7FEFFFFFFFFFFFFF, "max")
    bases.setdefault(R.TWO52 - 1, "maxsub")
    out = {}

    def add(t, fam):
        if t in out:
            return
        out[t] = (fam, text_flags(t))

    for t in FIXED_TEXTS:
        add(t, "fixed")
    idx = 0
    for b, fam in [(0, "zero")] + list(bases.items()):
        forms = []
        if b:
            v = R.Val(b)
            s, n = R._digits(v)
            forms.append(("shortest", s, n))
            d17, c = R._round_sig(v.D, 17)
            n17 = v.n + c
            for suf in ("1", "5", "9", "49", "50", "51", "499", "500", "501"):
                forms.append(("ext17", d17 + suf, n17))
            m, e = v.m, v.e
        else:
            m, e = 0, -1074
        Dm, nm = R.exact_decimal(2 * m + 1, e - 1)  # exact midpoint between b and its successor
        for L in (17, 18, 19, 20):
            if len(Dm) > L:
                forms.append(("mid-below", Dm[:L], nm))
                up = _incr(Dm[:L])
                forms.append(("mid-above", up, nm if len(up) == L else nm + 1))
        if len(Dm) <= 20:
            forms.append(("mid-exact", Dm, nm))
        elif thorough or idx % 4 == 0:
            forms.append(("mid-exact-long", Dm, nm))
            forms.append(("mid-long-above", Dm + "1", nm))
            forms.append(("mid-long-below", Dm[:-1] + str(int(Dm[-1]) - 1) + "9", nm))
        for kind, dg, n in forms:
            dg2 = dg.rstrip("0") or "0"
            add(_exp_form(dg2, n), kind)
            if -25 <= n <= 330 and len(dg2) <= 60:
                add(_pos_form(dg2, n), kind + "-pos")
            if idx % 8 == 0:
                add("-" + _exp_form(dg2, n), kind + "-neg")
        idx += 1
    # integer literals in radix 16 / 8 / 2 and as plain decimals, around rounding ties of wide integers
    for n in _tie_integers(thorough):
        add("0x" + R.int_to_radix(n, 16), "nondecimal")
        add("0X" + R.int_to_radix(n, 16).upper(), "nondecimal")
        add("0o" + R.int_to_radix(n, 8), "nondecimal")
        add("0b" + R.int_to_radix(n, 2), "nondecimal")
        add(str(n), "wide-integer")
    return [(t, f, fl) for t, (f, fl) in out.items()]


def _tie_integers(thorough):
    """integers with more than 53 significant bits placed just below / at / just above a rounding tie"""
    bs = [53, 54, 55, 56, 57, 59, 60, 63, 64, 65, 70, 100, 127, 128, 129, 200, 1000] if thorough else [53, 54, 57, 60, 64, 65, 100, 128, 129]
    out = []
    for b in bs:
        h = 1 << (b - 53) if b > 53 else 1
        ns = [2 ** b + 1] if b == 53 else [2 ** b + h - 1, 2 ** b + h, 2 ** b + h + 1, 2 ** b + 3 * h, 2 ** b + 3 * h - 1, 2 ** b + 3 * h + 1,
                                           2 ** (b + 1) - h, 2 ** (b + 1) - h - 1]
        # the excess over the tie sits in one bit that is neither the lowest nor near the top (sticky-bit handling of wide integers)
        for extra in (2, 1 << max(1, (b - 53) // 2), 1 << max(1, b - 53 - 3)):
            if b > 53 and extra < h and 2 ** b + h + extra not in ns:
                ns.append(2 ** b + h + extra)
        out += ns
    return out


def gen_parseint(tier):
    """-> list of (text, radix or None, family)"""
    thorough = tier == "thorough"
    out = []
    seen = set()

    def add(t, r, fam):
        if (t, r) not in seen:
            seen.add((t, r))
            out.append((t, r, fam))

    for t in ("1234567890123456789", "12345678901234567890", "123456789012345678901", "1234567890123456789012345",
              "9007199254740993", "9007199254740992", "9007199254740991", "18446744073709551615", "18446744073709551617",
              "99999999999999999999", "999999999999999999999", "100000000000000000001", "4294967296", "2147483648"):
        add(t, 10, "dec")
        add(t, None, "dec")
        add("-" + t, 10, "dec")
    pat = "12345678901234567890123456"
    for L in range(15, 27):
        for t in (pat[:L], "9" * L, "1" + "0" * (L - 2) + "1", "8" + "5" * (L - 1)):
            add(t, 10, "dec-len")
    # integers with more than 53 significant bits around rounding ties, written exactly in each radix
    for n in _tie_integers(thorough):
        for r in (R_P2 + [10]) if not thorough else list(range(2, 37)):
            add(R.int_to_radix(n, r), r, "tie-bits")
    # safe integers in every radix
    for r in range(2, 37):
        for n in (R.TWO53, R.TWO53 - 1, r ** 5 + 1, 123456789, 4503599627370497):
            add(R.int_to_radix(n, r), r, "safe")
            add(R.int_to_radix(n, r).upper(), r, "safe")
    for t, r in (("  42", 10), ("-0", 10), ("0x1f", None), ("0x1F", 16), ("0X1f", 0), ("0x", None), ("0x1f", 10), ("12px", 10), ("", 10), ("zz", 36),
                 ("Zz", 36), ("10", 1), ("10", 37), ("10", 0), ("10", 2), ("12", 2), ("2", 2), ("-  5", 10), ("+7", 10), ("\\t\\n 9", 10), ("1e3", 10),
                 ("1e3", 16), ("-0x10", None), ("0.9", 10), ("-0.9", 10), (".9", 10), ("Infinity", 10), ("Infinity", 36), ("00012", 10),
                 ("0000000000000000000000000012345678901234567890", 10), ("10", -2147483648), ("10", 4294967298), ("11", 2.9)):
        add(t, r, "grammar")
    return out


# misc cases: (expression, expected result text) - argument coercion, RangeError borders, order of checks.  Hand-derived
# from ECMA-262 (Number.prototype.toFixed/toExponential/toPrecision/toString) and cross-checked against V8.
MISC = [
    ("(1.5).toFixed(-1)", "throw:RangeError"), ("(1.5).toFixed(101)", "throw:RangeError"), ("(1.5).toFixed(Infinity)", "throw:RangeError"),
    ("NaN.toFixed(101)", "throw:RangeError"), ("(1.5).toFixed(undefined)", "ok:2"), ("(1.45).toFixed(1.9)", "ok:1.4"),
    ("(1.5).toFixed('2')", "ok:1.50"), ("(1.5).toFixed(-0.5)", "ok:2"), ("(1.5).toFixed(NaN)", "ok:2"), ("(1.5).toFixed(100.9)", "ok:1.5" + "0" * 99),
    ("(1.5).toExponential(-1)", "throw:RangeError"), ("(1.5).toExponential(101)", "throw:RangeError"), ("NaN.toExponential(101)", "ok:NaN"),
    ("Infinity.toExponential(-5)", "ok:Infinity"), ("(-Infinity).toExponential(1000)", "ok:-Infinity"), ("(123.456).toExponential(2.7)", "ok:1.23e+2"),
    ("(123.456).toExponential('3')", "ok:1.235e+2"), ("(0).toExponential(-1)", "throw:RangeError"),
    ("(1.5).toPrecision(0)", "throw:RangeError"), ("(1.5).toPrecision(101)", "throw:RangeError"), ("NaN.toPrecision(0)", "ok:NaN"),
    ("Infinity.toPrecision(1000)", "ok:Infinity"), ("(123.456).toPrecision(1.9)", "ok:1e+2"), ("(123.456).toPrecision('4')", "ok:123.5"),
    ("(0).toPrecision(0)", "throw:RangeError"), ("(1.5).toPrecision(-1)", "throw:RangeError"),
    ("(255).toString(1)", "throw:RangeError"), ("(255).toString(37)", "throw:RangeError"), ("(255).toString(0)", "throw:RangeError"),
    ("NaN.toString(1)", "throw:RangeError"), ("Infinity.toString(37)", "throw:RangeError"), ("(255).toString(16.9)", "ok:ff"),
    ("(255).toString(undefined)", "ok:255"), ("(255).toString('2')", "ok:11111111"), ("(255).toString(Infinity)", "throw:RangeError"),
    ("(-255).toString(36)", "ok:-73"), ("(0.5).toString(2)", "ok:0.1"), ("(-0).toString(2)", "ok:0"), ("(-0).toFixed(2)", "ok:0.00"),
    ("(-0).toExponential(2)", "ok:0.00e+0"), ("(-0).toPrecision(3)", "ok:0.00"), ("(-1e-10).toFixed(2)", "ok:-0.00"),
    ("(-0.0000001).toPrecision(1)", "ok:-1e-7"), ("Number.prototype.toFixed.call('x',1)", "throw:TypeError"),
    ("Number.prototype.toPrecision.call({},1)", "throw:TypeError"), ("Number.prototype.toString.call(new Number(255),16)", "ok:ff"),
    ("Number('')", "ok:0"), ("Number(' \\t\\n')", "ok:0"), ("Number('  12.5  ')", "ok:12.5"), ("Number('1e')", "ok:NaN"), ("Number('1_000')", "ok:NaN"),
    ("Number('0x10')", "ok:16"), ("Number('0b101')", "ok:5"), ("Number('0o17')", "ok:15"), ("Number('-0x10')", "ok:NaN"), ("Number('+Infinity')", "ok:Infinity"),
    ("Number('infinity')", "ok:NaN"), ("Number('1.5.2')", "ok:NaN"), ("Number('.')", "ok:NaN"), ("Number('e5')", "ok:NaN"), ("Number('5.e1')", "ok:50"),
    ("Number('.5e1')", "ok:5"), ("Number('1e+')", "ok:NaN"), ("Number('1 2')", "ok:NaN"), ("Number('12n')", "ok:NaN"), ("1/Number('-0')", "ok:-Infinity"),
    ("parseFloat('1.5e+')", "ok:1.5"), ("parseFloat('1.5e')", "ok:1.5"), ("parseFloat('1e5x')", "ok:100000"), ("parseFloat('1..5')", "ok:1"),
    ("parseFloat('.5.')", "ok:0.5"), ("parseFloat('-.5e-3z')", "ok:-0.0005"), ("parseFloat('0x10')", "ok:0"), ("parseFloat('1_000')", "ok:1"),
    ("parseFloat('Infinityx')", "ok:Infinity"), ("parseFloat('infinity')", "ok:NaN"), ("parseFloat('  \\n 2.5abc')", "ok:2.5"), ("parseFloat('')", "ok:NaN"),
    ("parseFloat('.')", "ok:NaN"), ("parseFloat('-')", "ok:NaN"), ("parseFloat('e5')", "ok:NaN"), ("parseFloat('+.e5')", "ok:NaN"), ("1/parseFloat('-0')", "ok:-Infinity"),
    ("parseFloat('-Infinity')", "ok:-Infinity"), ("parseFloat('1e1000')", "ok:Infinity"), ("parseFloat('-1e-1000')", "ok:0"), ("1/parseFloat('-1e-1000')", "ok:-Infinity"),
    ("parseFloat('5.')", "ok:5"), ("parseFloat('5.e2')", "ok:500"), ("parseFloat('0.0000001')", "ok:1e-7"), ("parseFloat(1e21)", "ok:1e+21"),
    ("parseFloat(0.0000001)", "ok:1e-7"), ("parseInt(0.0000005)", "ok:5"), ("parseInt(1e21)", "ok:1"), ("parseInt(123.99)", "ok:123"), ("parseInt(-0)", "ok:0"),
    ("1/parseInt('-0')", "ok:-Infinity"), ("parseInt(null)", "ok:NaN"), ("parseInt('null',36)", "ok:1112745"),
    ("0.000001", "ok:0.000001"), ("1e21", "ok:1e+21"), ("0.1+0.2", "ok:0.30000000000000004"), ("0b101+0o17+0x10", "ok:36"), ("1_000.5_5", "ok:1000.55"),
    ("1e-7", "ok:1e-7"), ("123456789012345680000", "ok:123456789012345680000"), ("(25).toString(36)+(35).toString(36)", "ok:pz"),
    ("JSON.stringify([1e21,1e-7,-0,0.1,NaN,Infinity,5e-324])", "ok:[1e+21,1e-7,0,0.1,null,null,5e-324]"), ("JSON.parse('[1E2,-0.0e1,1e-2]').join()", "ok:100,0,0.01"),
    ("String(new Number(-1.5e-9))", "ok:-1.5e-9"), ("`${1/3}`", "ok:0.3333333333333333"), ("[1e21,1.5,-0].join()", "ok:1e+21,1.5,0"), ("({})[0.1+0.2]=1, Object.keys({[1e21]:1,[1e-7]:2})+''", "ok:1e+21,1e-7"),
]


# ---------------------------------------------------------------------------------------------------------
# scripts
# ---------------------------------------------------------------------------------------------------------
JS_HEAD = ("var u32=new Uint32Array(2),f64=new Float64Array(u32.buffer);"
           "function bits(v){if(typeof v!=='number')return 'type:'+typeof v;f64[0]=v;return u32[1]+':'+u32[0];}"
           "function ev(s){try{return bits((0,eval)(s));}catch(e){return 'throw:'+e.name;}}"
           "function js(s){try{return bits(JSON.parse(s));}catch(e){return 'throw:'+e.name;}}")


def src_num(meta):
    """One raw __emit per result (no accumulation in the engine: its string concatenation is linear in the accumulated length).
    Per value: a marker line '#k', then the results in the fixed order that `num_layout` describes."""
    B = []
    for b, fl in meta["vals"]:
        B += [b & 0xFFFFFFFF, b >> 32, fl]
    FD, ED, PD, RA, RB = meta["FD"], meta["ED"], meta["PD"], meta["RA"], meta["RB"]
    s = [JS_HEAD, "var B=%s,FD=%s,ED=%s,PD=%s,RA=%s,RB=%s;" % tuple(json.dumps(x, separators=(",", ":")) for x in (B, FD, ED, PD, RA, RB)),
         "for(var i=0;i<B.length;i+=3){var x=new Float64Array(new Uint32Array([B[i],B[i+1]]).buffer)[0],fl=B[i+2],j,t,rr;__emit('#'+i/3);"]
    if meta.get("S", True):
        s.append("var s=String(x);__emit(s);__emit(''+x);__emit(x.toString(10));__emit(x.toString());"
                 "__emit(bits(Number(s)));__emit(bits(parseFloat(s)));__emit(bits(+s));__emit(ev(s));__emit(x-x===0?js(s):'-');")
    if FD:
        s.append("for(j=0;j<FD.length;j++)__emit(x.toFixed(FD[j]));")
    if ED:
        s.append("for(j=0;j<ED.length;j++)__emit(x.toExponential(ED[j]));")
    if meta.get("EU", True):
        s.append("__emit(x.toExponential());__emit(x.toExponential(undefined));")
    if PD:
        s.append("for(j=0;j<PD.length;j++)__emit(x.toPrecision(PD[j]));")
    if meta.get("PU", True):
        s.append("__emit(x.toPrecision(undefined));")
    if RA or RB:
        s.append("rr=(fl&1)?RA:RB;for(j=0;j<rr.length;j++){t=x.toString(rr[j]);__emit(t);__emit(bits(parseInt(t,rr[j])));}")
    s.append("}")
    return "".join(s)


def num_layout(meta, fl):
    """[(operation, argument)] in emission order for one value with flag fl"""
    out = []
    if meta.get("S", True):
        out += [("String", None), ("concat", None), ("toString10", None), ("toString", None),
                ("Number", None), ("parseFloat", None), ("unaryPlus", None), ("eval", None), ("JSON.parse", None)]
    out += [("toFixed", d) for d in meta["FD"]]
    out += [("toExponential", d) for d in meta["ED"]]
    if meta.get("EU", True):
        out += [("toExponential", "none"), ("toExponential", "undefined")]
    out += [("toPrecision", p) for p in meta["PD"]]
    if meta.get("PU", True):
        out += [("toPrecision", "undefined")]
    for r in (meta["RA"] if fl & 1 else meta["RB"]):
        out += [("toStringRadix", r), ("parseInt", r)]
    return out


def src_txt(meta):
    T = [t for t, fl in meta["texts"]]
    FL = [fl for t, fl in meta["texts"]]
    return (JS_HEAD + "var T=%s,FL=%s;" % (json.dumps(T, separators=(",", ":")), json.dumps(FL, separators=(",", ":"))) +
            "for(var i=0;i<T.length;i++){var t=T[i],fl=FL[i];__emit('N'+i+' '+bits(Number(t))+' '+bits(parseFloat(t))+' '+bits(+t)+' '+((fl&1)?ev(t):'-')+' '+((fl&2)?js(t):'-'));}")


def src_pint(meta):
    return (JS_HEAD + "var T=%s;" % json.dumps(meta["items"], separators=(",", ":")) +
            "for(var i=0;i<T.length;i++){var t=T[i];__emit('I'+i+' '+(t[1]===null?bits(parseInt(t[0])):bits(parseInt(t[0],t[1]))));}")


def src_misc(meta):
    body = "".join("__emit('M%d '+t(function(){return %s;}));" % (i, e) for i, e in enumerate(meta["exprs"]))
    return "function t(f){try{return 'ok:'+String(f());}catch(e){return 'throw:'+e.name;}}" + body


SRC = {"num": src_num, "txt": src_txt, "pint": src_pint, "misc": src_misc}


def make_job(meta):
    return {"src": SRC[meta["kind"]](meta), "cfg": {"prelude": True}}


def build_metas(tier, vals, texts, pints):
    thorough = tier == "thorough"
    FD, ED, PD = (FULL_F, FULL_E, FULL_P) if thorough else (QUICK_F, QUICK_E, QUICK_P)
    per = 8 if thorough else 16  # small batches: the harness caps a job at 20 s of wall time and the machine may be shared
    metas = []
    # values are dealt round-robin so that every batch mixes magnitudes (conversion cost depends on the magnitude)
    J = (len(vals) + per - 1) // per
    for j in range(J):
        metas.append({"kind": "num", "vals": [(b, fl) for b, f, fl in vals[j::J]], "FD": FD, "ED": ED, "PD": PD, "RA": R_ALL, "RB": R_P2,
                      "first": j, "step": J})
    for i in range(0, len(texts), 250):
        metas.append({"kind": "txt", "texts": [(t, fl) for t, f, fl in texts[i:i + 250]], "first": i})
    for i in range(0, len(pints), 400):
        metas.append({"kind": "pint", "items": [[t.replace("\\t", "\t").replace("\\n", "\n"), r] for t, r, f in pints[i:i + 400]], "first": i})
    metas.append({"kind": "misc", "exprs": [e for e, _ in MISC], "first": 0})
    return metas


# ---------------------------------------------------------------------------------------------------------
# comparison (runs inside pool workers)
# ---------------------------------------------------------------------------------------------------------
def _pb(t):
    """'hi:lo' -> bits (any NaN canonicalised), or the raw text for throw:/type: markers."""
    if ":" in t and t[0].isdigit():
        hi, lo = t.split(":")
        b = (int(hi) << 32) | int(lo)
        if (b >> 52) & 0x7FF == 0x7FF and b & R.MASK52:
            return R.NAN_BITS
        return b
    return t


def _hx(b):
    return "%016x" % b if isinstance(b, int) else str(b)


class Acc:
    def __init__(self):
        self.mism = []       # (class, case, observed, expected, what)
        self.n_cmp = 0       # comparisons with the reference
        self.n_exec = 0      # conversions executed on the engine
        self.n_undet = 0     # executed, result not demanded (spec leaves it open)
        self.n_lenient = 0   # accepted through a spec-permitted alternative (not the exactly rounded / canonical result)
        self.per_op = {}
        self.outs = set()
        self.samples = []
        self.selfchecks = 0
        self.lenient = []

    def cmp(self, cls, case, obs, exp, allowed=None):
        self.n_cmp += 1
        self.n_exec += 1
        self.per_op[cls] = self.per_op.get(cls, 0) + 1
        self.outs.add(hash_out(obs))
        if obs == exp:
            return True
        if allowed is not None and obs in allowed:
            self.n_lenient += 1
            if len(self.lenient) < 20:
                self.lenient.append((cls, case, _hx(obs), _hx(exp)))
            return True
        self.mism.append((cls, case, _hx(obs), _hx(exp)))
        return False

    def undet(self, cls, obs):
        self.n_exec += 1
        self.n_undet += 1
        self.outs.add(hash_out(obs))


def hash_out(o):
    import hashlib
    return hashlib.blake2b(str(o).encode(), digest_size=8).digest()


def _lines(res):
    d = {}
    for l in res.get("lines", []):
        k, _, v = l.partition(" ")
        d[k] = v
    return d


def compare_num(meta, res, acc, selfcheck_stride=53):
    comp = res.get("completion") or ""
    lines = res.get("lines", [])
    pos = 0
    for k, (b, fl) in enumerate(meta["vals"]):
        v = R.Val(b)
        hb = "%016x" % b
        gi = meta.get("first", 0) + k * meta.get("step", 1)
        lay = num_layout(meta, fl)
        if pos >= len(lines) or lines[pos] != "#%d" % k or pos + 1 + len(lay) > len(lines) or \
                (pos + 1 + len(lay) < len(lines) and not lines[pos + 1 + len(lay)].startswith("#")):
            acc.cmp("job", {"op": "job", "bits": hb}, "output missing or misaligned; completion=" + comp, "lines")
            # resynchronise on the next marker
            nxt = "#%d" % (k + 1)
            while pos < len(lines) and lines[pos] != nxt:
                pos += 1
            continue
        got = lines[pos + 1:pos + 1 + len(lay)]
        pos += 1 + len(lay)
        slow = selfcheck_stride and gi % selfcheck_stride == 0 and v.kind == "fin"
        if slow and not R.MUTATE and not R.slow_shortest_ok(v):
            raise core.MachineryError("reference: shortest digits fail the independent examination for " + hb)
        want_s = R.js_tostring(v)
        if meta.get("S", True) and v.kind == "fin":
            # reference self-examination (cheap): round trip and the host's repr
            if R.str_to_bits(want_s) != b and not R.MUTATE:
                raise core.MachineryError("reference: parse(shortest(x)) != x for " + hb)
            if R.host_repr_digits(b) != R._digits(v) and not R.MUTATE:
                raise core.MachineryError("reference shortest digits differ from host repr for " + hb)
            acc.selfchecks += 2
        s_obs = rb = None
        last_t = None
        for (op, arg), o in zip(lay, got):
            if op in ("String", "concat", "toString10", "toString"):
                if op == "String":
                    s_obs = o
                    rb = R.str_to_bits(o) if o != "NaN" else R.NAN_BITS
                acc.cmp(op, {"op": op, "bits": hb, "arg": None}, o, want_s)
            elif op in ("Number", "parseFloat", "unaryPlus", "eval", "JSON.parse"):
                if o == "-":
                    continue
                if rb is None:
                    acc.undet(op, o)
                else:
                    acc.cmp(op, {"op": op, "bits": hb, "arg": s_obs}, _pb(o), rb)
            elif op == "toFixed":
                want = R.js_tofixed(v, arg)
                if slow:
                    acc.selfchecks += 1
                    if R.slow_tofixed(v, arg) != want and not R.MUTATE:
                        raise core.MachineryError("reference fast/slow toFixed differ %s %d" % (hb, arg))
                acc.cmp(op, {"op": op, "bits": hb, "arg": arg}, o, want)
            elif op == "toExponential":
                if isinstance(arg, str):
                    acc.cmp(op, {"op": op, "bits": hb, "arg": arg}, o, R.js_toexponential(v, None), allowed=R.js_toexponential_undefined_allowed(v))
                    continue
                want = R.js_toexponential(v, arg)
                if slow:
                    acc.selfchecks += 1
                    if R.slow_toexponential(v, arg) != want and not R.MUTATE:
                        raise core.MachineryError("reference fast/slow toExponential differ %s %d" % (hb, arg))
                acc.cmp(op, {"op": op, "bits": hb, "arg": arg}, o, want)
            elif op == "toPrecision":
                if isinstance(arg, str):
                    acc.cmp(op, {"op": op, "bits": hb, "arg": arg}, o, want_s)
                    continue
                want = R.js_toprecision(v, arg)
                if slow:
                    acc.selfchecks += 1
                    if R.slow_toprecision(v, arg) != want and not R.MUTATE:
                        raise core.MachineryError("reference fast/slow toPrecision differ %s %d" % (hb, arg))
                acc.cmp(op, {"op": op, "bits": hb, "arg": arg}, o, want)
            elif op == "toStringRadix":
                last_t = o
                want = R.js_toradix(v, arg)
                if want is None:
                    acc.undet(op, o)
                else:
                    acc.cmp(op, {"op": op, "bits": hb, "arg": arg}, o, want)
            elif op == "parseInt":
                eb, al = R.js_parseint(last_t, arg)
                if al is None:
                    acc.undet(op, o)
                else:
                    acc.cmp(op, {"op": op, "text": last_t, "arg": arg}, _pb(o), eb, allowed=al)
        if len(acc.samples) < 1 and meta.get("S", True) and len(meta["FD"]) > 3 and len(meta["PD"]) > 3 and v.kind == "fin" and -4 < v.n < 12 \
                and len(v.D) > 20:
            acc.samples.append({"bits": hb, "String(x)": got[0], "Number(String(x)) bits": got[4], "x.toFixed(%d)" % meta["FD"][3]: got[9 + 3],
                                "x.toPrecision(%d)" % meta["PD"][-1]: got[9 + len(meta["FD"]) + len(meta["ED"]) + 2 + len(meta["PD"]) - 1]})


def compare_txt(meta, res, acc):
    comp = res.get("completion") or ""
    L = _lines(res)
    for i, (t, fl) in enumerate(meta["texts"]):
        if "N%d" % i not in L:
            acc.cmp("job", {"op": "job", "text": t}, "missing output; completion=" + comp, "lines")
            continue
        exact = R.str_to_bits(t)
        allowed = R.str_to_bits_allowed(t)
        hf = R.host_float_bits(t)
        if exact is None or (hf is not None and hf != exact and not R.MUTATE):
            raise core.MachineryError("reference str_to_bits differs from host float() on %r" % t)
        acc.selfchecks += 1
        nondec = R.nondecimal_value(t) is not None
        for name, o in zip(("text:Number", "text:parseFloat", "text:unaryPlus", "text:eval", "text:JSON.parse"), L["N%d" % i].split(" ")):
            if o == "-":
                continue
            if nondec and name == "text:parseFloat":
                acc.cmp(name, {"op": name, "text": t}, _pb(o), 0)  # parseFloat stops after the leading "0"
                continue
            acc.cmp(name, {"op": name, "text": t}, _pb(o), exact, allowed=allowed)


def compare_pint(meta, res, acc):
    comp = res.get("completion") or ""
    L = _lines(res)
    for i, (t, r) in enumerate(meta["items"]):
        if "I%d" % i not in L:
            acc.cmp("job", {"op": "job", "text": t, "arg": r}, "missing output; completion=" + comp, "lines")
            continue
        rr = 0 if r is None else int(r)  # ToInt32
        rr = ((rr + 2 ** 31) % 2 ** 32) - 2 ** 31
        eb, al = R.js_parseint(t, rr)
        o = L["I%d" % i]
        if al is None:
            acc.undet("text:parseInt", o)
        else:
            acc.cmp("text:parseInt", {"op": "text:parseInt", "text": t, "arg": r}, _pb(o), eb, allowed=al)


def compare_misc(meta, res, acc):
    L = _lines(res)
    want = dict(MISC)
    for i, e in enumerate(meta["exprs"]):
        acc.cmp("misc", {"op": "misc", "expr": e}, L.get("M%d" % i, "<missing>; completion=%s" % res.get("completion")), want[e])


COMPARE = {"num": compare_num, "txt": compare_txt, "pint": compare_pint, "misc": compare_misc}

_KNOWN = None   # set in the parent before the pool forks


def _task(arg):
    """Pool worker: execute a few jobs on the engine, compare with the reference, return a summary."""
    metas, mutate = arg
    R.MUTATE = mutate
    metas, jobs, res = _execute(metas)
    shutil.rmtree(core._tmpdir(), ignore_errors=True)
    return _digest(metas, jobs, res)


_SPLIT_KEY = {"num": "vals", "txt": "texts", "pint": "items", "misc": "exprs"}


def _execute(metas):
    """Run the batches; a batch that hits the harness' per-job wall cap (`Hang`) is split in two and re-run (the cap is per job and the
    machine may be shared), so that only a conversion that hangs on its own is reported as such."""
    jobs = [make_job(m) for m in metas]
    res = core.run_jobs(jobs, nproc=1, chunk=len(jobs))
    om, oj, orr = [], [], []
    for m, j, r in zip(metas, jobs, res):
        key = _SPLIT_KEY[m["kind"]]
        if (r.get("completion") or "").startswith("Hang") and len(m[key]) > 1:
            h = len(m[key]) // 2
            a = dict(m)
            a[key] = m[key][:h]
            b = dict(m)
            b[key] = m[key][h:]
            b["first"] = m.get("first", 0) + h * m.get("step", 1)
            sm, sj, sr = _execute([a, b])
            om += sm
            oj += sj
            orr += sr
        else:
            om.append(m)
            oj.append(j)
            orr.append(r)
    return om, oj, orr


def _digest(metas, jobs, res):
    acc = Acc()
    bad_jobs = []
    for m, j, r in zip(metas, jobs, res):
        c = r.get("completion") or ""
        if not c.startswith("Value"):
            bad_jobs.append((m, c))
        COMPARE[m["kind"]](m, r, acc)
    known, unknown, kcount = [], [], {}
    for cls, case, obs, exp in acc.mism:
        ck, ok = core.sha12(case), core.sha12(obs)
        if _KNOWN is not None and (ck, ok) in _KNOWN:
            kcount[cls] = kcount.get(cls, 0) + 1
            known.append((cls, case, obs, exp) if kcount[cls] <= 2 else (cls, ck, ok))
        else:
            unknown.append((cls, case, obs, exp, ck, ok))
    return {"n_cmp": acc.n_cmp, "n_exec": acc.n_exec, "n_undet": acc.n_undet, "n_lenient": acc.n_lenient, "per_op": acc.per_op,
            "outs": b"".join(sorted(acc.outs)), "known": known, "unknown": unknown, "samples": acc.samples, "selfchecks": acc.selfchecks, "lenient": acc.lenient,
            "bad_jobs": bad_jobs}


def replay_meta(case):
    """single-case job for a violation identity"""
    op = case["op"]
    if op in ("misc",):
        return {"kind": "misc", "exprs": [case["expr"]]}
    if op == "text:parseInt" or op == "parseInt":
        return {"kind": "pint", "items": [[case["text"], case.get("arg")]]}
    if op.startswith("text:"):
        t = case["text"]
        return {"kind": "txt", "texts": [(t, text_flags(t))]}
    b = int(case["bits"], 16)
    m = {"kind": "num", "vals": [(b, 1)], "FD": [], "ED": [], "PD": [], "RA": [], "RB": [], "S": False, "EU": False, "PU": False}
    a = case.get("arg")
    if op == "toFixed":
        m["FD"] = [a]
    elif op == "toExponential":
        if isinstance(a, int):
            m["ED"] = [a]
        else:
            m["EU"] = True
    elif op == "toPrecision":
        if isinstance(a, int):
            m["PD"] = [a]
        else:
            m["PU"] = True
    elif op == "toStringRadix":
        m["RA"] = [a]
    else:
        m["S"] = True
    return m


def what_of(cls, case, obs, exp):
    if "bits" in case:
        v = R.Val(int(case["bits"], 16))
        subj = "x=0x%s (%s)" % (case["bits"], R.js_tostring(v))
    elif "text" in case:
        t = case["text"]
        subj = "text=%r" % (t if len(t) <= 60 else t[:40] + "...(%d chars)" % len(t))
    else:
        subj = case.get("expr", "")
    o, e = str(obs), str(exp)
    if len(o) > 70 or len(e) > 70:
        i = 0
        while i < len(o) and i < len(e) and o[i] == e[i]:
            i += 1
        st = max(0, i - 8)
        o = "%s%s%s(len %d, first difference at %d)" % ("..." if st else "", o[st:i + 24], "..." if len(o) > i + 24 else "", len(o), i)
        e = "%s%s%s(len %d)" % ("..." if st else "", e[st:i + 24], "..." if len(e) > i + 24 else "", len(e))
    return "%s arg=%s %s: got %s expected %s" % (cls, case.get("arg"), subj, o, e)


# ---------------------------------------------------------------------------------------------------------
# run
# ---------------------------------------------------------------------------------------------------------
def explore(tier, mutate="", known=None, only_kinds=None):
    """Enumerate, execute, compare.  -> (summary dict, metas)"""
    global _KNOWN
    _KNOWN = known
    vals = gen_values(tier)
    texts = gen_texts(tier)
    pints = gen_parseint(tier)
    metas = build_metas(tier, vals, texts, pints)
    if only_kinds:
        metas = [m for m in metas if m["kind"] in only_kinds]
    group = 8 if tier == "thorough" else 3
    tasks = [(metas[i:i + group], mutate) for i in range(0, len(metas), group)]
    ctx = multiprocessing.get_context("fork")
    with ctx.Pool(min(core.NPROC, len(tasks))) as pool:
        parts = pool.map(_task, tasks, chunksize=1)
    tot = {"n_cmp": 0, "n_exec": 0, "n_undet": 0, "n_lenient": 0, "selfchecks": 0, "per_op": {}, "known": [], "unknown": [], "samples": [], "bad_jobs": [], "lenient": []}
    outs = set()
    for p in parts:
        for k in ("n_cmp", "n_exec", "n_undet", "n_lenient", "selfchecks"):
            tot[k] += p[k]
        for k, n in p["per_op"].items():
            tot["per_op"][k] = tot["per_op"].get(k, 0) + n
        o = p["outs"]
        outs.update(o[i:i + 8] for i in range(0, len(o), 8))
        tot["known"] += p["known"]
        tot["unknown"] += p["unknown"]
        tot["samples"] += p["samples"]
        tot["lenient"] += p["lenient"]
        tot["bad_jobs"] += p["bad_jobs"]
    tot["distinct_outcomes"] = len(outs)
    tot["sizes"] = {"values": len(vals), "texts": len(texts), "parseInt_texts": len(pints), "misc": len(MISC), "jobs": len(metas)}
    fam = {}
    for b, f, fl in vals:
        fam[f.replace("neg-", "")] = fam.get(f.replace("neg-", ""), 0) + 1
    tot["families"] = fam
    tfam = {}
    for t, f, fl in texts:
        tfam[f] = tfam.get(f, 0) + 1
    tot["text_families"] = tfam
    tot["nonspecial"] = sum(1 for b, f, fl in vals if R.classify(b)[0] == "fin")
    return tot, metas


def load_tier_lists(chk):
    """`known-list-thorough:` lines of findings/C13.known: same file format as `known-list:`, consulted by the thorough tier only."""
    path = os.path.join(core.ROOT, "findings", "C13.known")
    n = 0
    if chk.tier != "thorough" or not os.path.exists(path):
        return n
    for line in open(path):
        line = line.strip()
        if not line.startswith("known-list-thorough:"):
            continue
        kv = core._kv(line[len("known-list-thorough:"):])
        if kv.get("property") != "C13":
            continue
        text = 'class="%s"' % kv.get("class", "")
        known = chk.findings.known
        for l in open(os.path.join(core.ROOT, kv["file"])):
            p = l.split(None, 2)
            if len(p) >= 2:
                known[(p[0], p[1])] = text
                n += 1
    return n


def run(chk):
    tier = chk.tier
    load_tier_lists(chk)
    known = chk.findings.known
    tot, metas = explore(tier, known=known)
    dump = os.environ.get("VERIF_C13_DUMP")
    # genuine failures of whole jobs (panic / hang / throw) are violations of this property on that batch
    for m, c in tot["bad_jobs"]:
        n = len(m[_SPLIT_KEY[m["kind"]]])
        chk.violation({"op": "job", "kind": m["kind"], "first": m.get("first"), "n": n}, c,
                      "batch %s@%s (%d cases) did not complete: %s" % (m["kind"], m.get("first"), n, c), replay={"meta": m}, expected="Value undefined")
    # known findings
    kc = {}
    for k in sorted(tot["known"], key=lambda k: len(k) != 4):  # the ones carrying full detail first (they are printed)
        cls = k[0]
        kc[cls] = kc.get(cls, 0) + 1
        if len(k) == 4:
            cls, case, obs, exp = k
            chk.violation(case, obs, what_of(cls, case, obs, exp), replay={"meta": replay_meta(case), "case": case}, expected=exp)
        else:
            cls, ck, ok = k
            if (ck, ok) not in chk._seen_known:
                chk._seen_known.add((ck, ok))
                chk.known_hits.append((ck, ok, "%s (listed)" % cls, chk.findings.known.get((ck, ok), "")))
    # new violations: confirm the first ones by re-execution, then report; replay files are capped per class
    per_cls = {}
    unknown = tot["unknown"]
    conf = []
    for cls, case, obs, exp, ck, ok in unknown:
        per_cls[cls] = per_cls.get(cls, 0) + 1
        if per_cls[cls] <= 3:
            conf.append(replay_meta(case))
    if conf:
        jobs = [make_job(m) for m in conf]
        res = core.run_jobs(jobs)
        core.confirm(list(zip(jobs, res)))
    CAP = int(os.environ.get("VERIF_C13_CAP", "150"))
    per_cls = {}
    if dump:
        os.makedirs(os.path.dirname(dump), exist_ok=True)
        df = open(dump, "w")
    for cls, case, obs, exp, ck, ok in unknown:
        per_cls[cls] = per_cls.get(cls, 0) + 1
        if dump:
            df.write("%s\t%s\t%s\t%s\n" % (cls, ck, ok, what_of(cls, case, obs, exp)))
        if per_cls[cls] <= CAP:
            chk.violation(case, obs, what_of(cls, case, obs, exp), replay={"meta": replay_meta(case), "case": case}, expected=exp)
    if dump:
        df.close()
    for cls, n in sorted(per_cls.items()):
        if n > CAP:
            print("VIOLATION-SUMMARY property=C13 class=%s new_violations=%d (replay files written for the first %d)" % (cls, n, CAP))
        chk.part("new:" + cls, violations=n)
    for cls, n in sorted(kc.items()):
        chk.part("known:" + cls, matched=n)
    sz = tot["sizes"]
    states = tot["n_exec"]
    chk.add(evaluations=sz["jobs"], states=states, transitions=tot["n_exec"], traces_validated_against_impl=tot["n_cmp"],
            distinct_nontrivial=tot["nonspecial"])
    chk.cov["distinct_outcomes"] = tot["distinct_outcomes"]
    chk.cov["sizes"] = sz
    chk.cov["per_operation_comparisons"] = dict(sorted(tot["per_op"].items()))
    chk.cov["executed_not_demanded"] = tot["n_undet"]
    chk.cov["accepted_spec_alternative"] = tot["n_lenient"]
    chk.cov["reference_selfchecks"] = tot["selfchecks"]
    chk.cov["accepted_spec_alternative_examples"] = [what_of(*l).replace("expected", "strict answer") for l in tot["lenient"][:8]]
    for f, n in sorted(tot["families"].items()):
        chk.part("values:" + f, count=n)
    for f, n in sorted(tot["text_families"].items()):
        chk.part("texts:" + f, count=n)
    grid = "toFixed d in %s; toExponential d in %s + (), (undefined); toPrecision p in %s + (undefined)" % (
        ("0..100", "0..100", "1..100") if tier == "thorough" else (QUICK_F, QUICK_E, QUICK_P))
    chk.cov["rule"] = (
        "E1: every double of the structured families (%d bit patterns, of which %d finite non-zero) x {String, ''+x, toString(), toString(10), "
        "Number/parseFloat/unary+/indirect eval/JSON.parse of the engine's own text, %s, toString(r)+parseInt(.,r) for r in 2,4,8,16,32 on every value "
        "and for all r in 2..36 on integers<=2^53 / the dyadic grid}; plus %d decimal texts x {Number, parseFloat, unary+, eval as literal, JSON.parse}; "
        "%d parseInt(text, radix) cases; %d argument-coercion / RangeError-order cases.  states = distinct (value or text, operation, argument) cases = "
        "conversions executed on the real engine (transitions); traces_validated_against_impl = results compared with the exact reference.  "
        "toString(r) is compared only where the generalised Number::toString has one answer (power-of-two radix: every double; other radix: integers "
        "<= 2^53 and dyadic fractions whose finite expansion has the minimal digit count); parseInt only where ECMA-262 demands the exact integer "
        "(radix 2,4,8,16,32 any size; radix 10 up to 20 significant digits, beyond that the permitted zero-filled alternative is also accepted; other "
        "radixes when the integer is <= 2^53); decimal texts with more than 20 significant digits may also yield the two values ECMA-262 permits; "
        "toExponential(undefined) may end in any digit that still round-trips.  'executed_not_demanded' counts executions outside those rules."
        % (sz["values"], tot["nonspecial"], grid, sz["texts"], sz["parseInt_texts"], sz["misc"]))
    xv = os.path.join(core.ROOT, "oracle", "c13_crossval.json")
    if os.path.exists(xv):
        chk.cov["model_cross_validated_on"] = json.load(open(xv))
    sv = os.path.join(core.ROOT, "oracle", "c13_sensitivity.json")
    if os.path.exists(sv):
        chk.cov["sensitivity_demonstrated_at_authoring_time"] = json.load(open(sv))
    for s in tot["samples"][:3]:
        chk.sample(s)
    for cls, case, obs, exp, ck, ok in unknown[:2]:
        chk.sample({"violation": what_of(cls, case, obs, exp)})
    for k in tot["known"]:
        if len(k) == 4 and len(chk.cov["samples"]) < 6:
            chk.sample({"known_finding": what_of(*k)})
    chk.assumptions += [
        "the platform is little-endian (Uint32Array halves of a Float64Array: index 0 = low word)",
        "typed-array element access, string concatenation, printing of integers below 2^32 and __emit work (a failure there shows as a mismatch, not as a pass)",
        "the reference c13_numref.py is correct: exact integer arithmetic; cross-validated against V8 at authoring time (oracle/c13_crossval.json), "
        "against an independent Fraction transliteration of the spec on a stride of the values in every run, and against the host's repr()/float() in every run",
        "NaN payloads are not distinguished (any NaN result equals NaN)",
        "doubles outside the structured families and texts outside the generated families are not decided",
    ]


def replay(rep):
    r = rep["replay"]
    meta = r["meta"]
    job = make_job(meta)
    res = core.run_jobs([job], chunk=1)[0]
    acc = Acc()
    if meta["kind"] == "num":
        compare_num(meta, res, acc, selfcheck_stride=0)
    else:
        COMPARE[meta["kind"]](meta, res, acc)
    print("case:", rep.get("case"))
    print("script:", job["src"][:400])
    print("engine lines:", [l[:300] for l in res.get("lines", [])], "completion:", res.get("completion"))
    case = r.get("case")
    bad = 0
    for cls, c, obs, exp in acc.mism:
        if case is None or c == case:
            print("MISMATCH", what_of(cls, c, obs, exp))
            print("  expected:", exp)
            print("  observed:", obs)
            bad += 1
    if not bad:
        print("expected == observed for all %d comparisons" % acc.n_cmp)
    return 1 if bad else 0


# ---------------------------------------------------------------------------------------------------------
# authoring-time tools (never used by a check run):  python3 -m vlib.checks.c13 crossval quick|thorough
# ---------------------------------------------------------------------------------------------------------
NODE_RUNNER = """
const vm=require('vm'),fs=require('fs');
const jobs=fs.readFileSync(process.argv[2],'utf8').split('\\n').filter(x=>x).map(x=>JSON.parse(x));
const out=[];
for(const j of jobs){const lines=[];const ctx=vm.createContext({__emit:(s)=>{lines.push(String(s));}});
 let c='Value undefined';try{vm.runInContext(j.src,ctx);}catch(e){c='Throw '+e;}
 out.push(JSON.stringify({lines:lines,completion:c}));}
fs.writeFileSync(process.argv[3],out.join('\\n')+'\\n');
"""


def _node_task(arg):
    metas, idx = arg
    d = os.path.join(core.OUT, "c13")
    os.makedirs(d, exist_ok=True)
    jobs = [make_job(m) for m in metas]
    inp, outp, run = [os.path.join(d, "node_%s_%d.%s" % (k, idx, ext)) for k, ext in (("in", "jsonl"), ("out", "jsonl"), ("run", "js"))]
    open(inp, "w").write("".join(json.dumps(j) + "\n" for j in jobs))
    open(run, "w").write(NODE_RUNNER)
    subprocess.run(["node", run, inp, outp], check=True)
    res = [json.loads(l) for l in open(outp) if l.strip()]
    for p in (inp, outp, run):
        os.unlink(p)
    return _digest(metas, jobs, res)


def crossval(tier):
    vals = gen_values(tier)
    texts = gen_texts(tier)
    pints = gen_parseint(tier)
    metas = build_metas(tier, vals, texts, pints)
    tasks = [(metas[i:i + 4], i) for i in range(0, len(metas), 4)]
    ctx = multiprocessing.get_context("fork")
    with ctx.Pool(core.NPROC) as pool:
        parts = pool.map(_node_task, tasks, chunksize=1)
    n_cmp = sum(p["n_cmp"] for p in parts)
    n_len = sum(p["n_lenient"] for p in parts)
    n_und = sum(p["n_undet"] for p in parts)
    mism = [u for p in parts for u in p["unknown"]]
    per = {}
    for p in parts:
        for k, n in p["per_op"].items():
            per[k] = per.get(k, 0) + n
    return {"tier": tier, "comparisons": n_cmp, "accepted_spec_alternative": n_len, "executed_not_demanded": n_und, "per_operation": per,
            "values": len(vals), "texts": len(texts), "parseInt_texts": len(pints)}, mism


if __name__ == "__main__":
    cmd = sys.argv[1]
    if cmd == "crossval":
        summ, mism = crossval(sys.argv[2])
        print(json.dumps(summ, indent=1))
        print("disagreements with node:", len(mism))
        for cls, case, obs, exp, ck, ok in mism[:60]:
            print("  ", what_of(cls, case, obs, exp))
        if not mism:
            path = os.path.join(core.ROOT, "oracle", "c13_crossval.json")
            rec = json.load(open(path)) if os.path.exists(path) else {}
            nv = subprocess.run(["node", "-p", "process.version+' (V8 '+process.versions.v8+')'"], stdout=subprocess.PIPE, text=True).stdout.strip()
            rec[sys.argv[2]] = {"engine": "node " + nv, "reference": "vlib/c13_numref.py sha256 " + core.sha12(open(R.__file__, "rb").read()),
                                "result": "0 disagreements", "when": "authoring time; `python3 -m vlib.checks.c13 crossval %s`" % sys.argv[2], **summ}
            json.dump(rec, open(path, "w"), indent=1, sort_keys=True)
            print("recorded in", path)
    elif cmd == "sensitivity":
        # perturb the reference (never the engine) and count what the check then reports beyond the known findings
        tier = sys.argv[2]
        known = core.Findings("C13").known
        rec = {}
        for mut in ("", "tie-even", "parse-truncate", "parse-half-up", "shortest-first"):
            tot, _ = explore(tier, mutate=mut, known=known)
            per = {}
            for u in tot["unknown"]:
                per[u[0]] = per.get(u[0], 0) + 1
            kn = {}
            for k in tot["known"]:
                kn[k[0]] = kn.get(k[0], 0) + 1
            rec[mut or "unperturbed"] = {"new_violations_by_class": dict(sorted(per.items())), "known_matched_by_class": dict(sorted(kn.items())),
                                         "example": what_of(*tot["unknown"][0][:4]) if tot["unknown"] else None}
            print(mut or "unperturbed", json.dumps(rec[mut or "unperturbed"], indent=1))
        path = os.path.join(core.ROOT, "oracle", "c13_sensitivity.json")
        json.dump({"tier": tier, "what": "reference perturbed via c13_numref.MUTATE, engine untouched; counts of violations the check then reports",
                   "perturbations": {"tie-even": "toFixed/toExponential/toPrecision round exact ties to even instead of up",
                                     "parse-truncate": "decimal->double truncates instead of rounding to nearest",
                                     "parse-half-up": "decimal->double rounds exact ties up instead of to even",
                                     "shortest-first": "Number::toString takes the smallest admissible digit string instead of the closest"},
                   "results": rec}, open(path, "w"), indent=1, sort_keys=True)
    elif cmd == "sizes":
        for t in ("quick", "thorough"):
            print(t, len(gen_values(t)), len(gen_texts(t)), len(gen_parseint(t)))
