"""C15 — typed arrays, buffers and DataViews match a byte model and stay in bounds.

E2 (explicit-state search over operation histories, model state as merge key).  A *world* is one primary buffer
`b` (ArrayBuffer(8) | ArrayBuffer(16) | resizable ArrayBuffer(8, max 16) | SharedArrayBuffer(8) | growable
SharedArrayBuffer(8, max 16)) initialised with a fixed byte pattern plus either
  * a typed-array view `a` (12 element types incl. Float16 x byteOffset {0, elemsize, 8} x length {length-tracking, 1, 2})
    and a companion view `c` of a different element type on the same buffer (495 worlds), or
  * a DataView `d` (byteOffset {0,1} x byteLength {auto,4}) (20 worlds).
A history is a sequence of operations: resize/grow to {0,4,8,12,16}, detach, buffer slice, element get/has/delete/
getOwnPropertyDescriptor/set/defineProperty with keys -1, 0, len-1, len, "1.5", "-0", fill, Array.prototype.fill, set(array |
overlapping view of another type | overlapping subarray), subarray, copyWithin, slice (also with a species constructor that
returns a view on the SAME buffer), sort / toSorted (default, comparator, comparator with side effect), reverse, toReversed,
with, at, indexOf / lastIndexOf / includes (NaN, undefined, present element), join, spread, keys, map / forEach / filter /
findLastIndex whose callback resizes, Atomics.{load,store,add,compareExchange}, construction of new views / DataViews on
the current buffer, DataView get/set for all 11 types x {little, big, default} x offset {0, 1, len-size, len-size+1}.
Arguments include objects whose valueOf detaches / shrinks to 0 or 4 / grows to 16 the buffer in the middle of the
operation (value, index, start, end, offset and comparator positions).

Every history is replayed on the real engine from fresh objects (`P()` rebuilds buffer and views and replays the
prefix) and after EVERY step the script prints the operation's result and dumps the buffer (byteLength, maxByteLength, raw
bytes) and every live view (length, byteOffset, byteLength, all elements, element [0], element [length]); the reference
model (vlib/c15_model.py: the spec algorithms on a Python bytearray) must produce the identical text.  Histories that reach
an already known model state (bytes + detached flag; the views are fixed per world) are merged: only the first is extended.

Levels per world are given by a plan [(alphabet, parent filter)]: alphabets tiny < core < quick < full; parent filter `all`
= every new model state is extended, `geom` = only the first state of every new geometry path (sequence of buffer lengths /
detached).  quick: [quick/all, core/geom]; thorough: resizable/growable worlds [full/all, quick/all, tiny/all, core/geom]
(depth 4), fixed-length worlds [full/all, core/all, core/geom].  An operation that produced a violation in a world is
reported with its shortest history and not re-applied deeper in that world (recorded in caps_hit).

Plus the single-step conversion table: every element type x every value of the conversion alphabet (60 Number-side values,
24 BigInt-side values) through element store / fill / constructor-from-array / of / from / set(array) / with / DataView set in both
byte orders / Atomics.store, add, compareExchange; and every ordered pair of element types through `new T2(t1)` and
`t2.set(t1)` with t1 holding the whole alphabet.

Engine notes (this boa revision): `ArrayBuffer.prototype.transfer/transferToFixedLength` exist only behind the cargo feature
`experimental`, which the harness build does not enable, so detaching is done through the embedder API
(`JsArrayBuffer::detach`) by the host function `__detach` of the `vc15` runner (crate harness/crates/vc15).  Float16Array,
resizable ArrayBuffer and growable SharedArrayBuffer exist and are covered.

The oracle is the model, not V8: oracle/c15_xval.md lists the five places where V8 11.3 deviates from the spec text (boa
agrees with the text on all of them) and the sizes of the authoring-time cross-validation (> 300 000 histories).

Any RustPanic / EnginePanic / Abort / Hang completion is a violation of the memory-safety half of the property.
"""
import json
import math
import os
import re
import shutil
from multiprocessing import Pool

from .. import core
from .. import c15_model as M
from ..c15_model import JSErr, Fx, TA, DV, World, Buf

PACKAGES = ("vrun", "vc15")
VC15 = os.path.join(core.TARGET, "debug", "vc15")

# ------------------------------------------------------------------------------------------------------------------
# JS side helpers (first source of every job; everything else refers to the globals b, a, c, d)
# ------------------------------------------------------------------------------------------------------------------
HELPERS = r"""
var b, a, c, d, r, D, FX, RS, DL, CMP, S;
(function () {
  var show = __show, emit = __emit, isView = ArrayBuffer.isView, U8 = Uint8Array, DVC = DataView, AB = ArrayBuffer,
      SAB = SharedArrayBuffer, isArr = Array.isArray, ots = Object.prototype.toString, detach = __detach;
  var tjoin = U8.prototype.join, call = Function.prototype.call.bind(Function.prototype.call);
  function bytes(buf) {
    var u;
    try { u = new U8(buf); } catch (e) { return '<!' + e.name + '>'; }
    return '<' + call(tjoin, u, ' ') + '>';
  }
  function T(f) { try { return show(f()); } catch (e) { return 'E ' + (e && e.name); } }
  S = function (v) {
    if (v === null || typeof v !== 'object') return show(v);
    if (v instanceof DVC) return 'DV(' + T(function () { return v.byteLength; }) + '@' + T(function () { return v.byteOffset; }) + ')';
    if (isView(v)) {
      // elements through the native join (Get(O,k) + ToString per element: -0 prints as 0, BigInts without suffix;
      // the raw byte dump and the explicit reads in D() keep those distinctions)
      var n = v.length;
      return call(ots, v).slice(8, -6) + '(' + n + '@' + v.byteOffset + '/' + v.byteLength + ')[' + (n ? call(tjoin, v, ',') : '') + ']';
    }
    if (v instanceof AB || v instanceof SAB) return 'B' + bytes(v);
    if (isArr(v)) { var q = []; for (var j = 0; j < v.length; j++) q.push(S(v[j])); return '[' + q.join(',') + ']'; }
    return show(v);
  };
  r = function (f) { var s; try { s = S(f()); } catch (e) { s = 'E ' + (e && e.name); } emit(s); };
  DL = function () { try { return d.byteLength; } catch (e) { return 0; } };
  D = function () {
    emit('b ' + b.byteLength + ' ' + b.maxByteLength + ' ' + bytes(b));
    if (a !== undefined) emit('a ' + S(a) + ' ' + show(a[0]) + ' ' + show(a[a.length]));
    if (c !== undefined) emit('c ' + S(c) + ' ' + show(c[0]) + ' ' + show(c[c.length]));
    if (d !== undefined) emit('d ' + T(function () { return d.byteLength; }) + ' ' + T(function () { return d.byteOffset; }) + ' ' +
                              T(function () { return d.getUint8(0); }) + ' ' + T(function () { return d.getUint8(DL()); }));
  };
  RS = function (n) { return (b instanceof AB) ? b.resize(n) : b.grow(n); };
  var EFF = { D: function () { detach(b); }, Z: function () { RS(0); }, S: function () { RS(4); }, G: function () { RS(16); }, P: function () { RS(5); }, Q: function () { RS(13); }, N: function () {} };
  FX = function (e, ret) { return { valueOf: function () { try { EFF[e](); } catch (x) {} return ret; } }; };
  // total descending comparator (NaN last, +0/-0 equal) with an optional side effect on its first call
  CMP = function (mode, e) {
    var first = true;
    return function (x, y) {
      if (first) { first = false; if (e) { try { EFF[e](); } catch (z) {} } }
      if (mode === 'zero') return 0;
      if (x !== x) return (y !== y) ? 0 : 1;
      if (y !== y) return -1;
      return x < y ? 1 : (x > y ? -1 : 0);
    };
  };
})();
"""

# fixed initial byte pattern: no NaN / Infinity encoding at any aligned position of any float type
INIT = bytes([0x01, 0x80, 0xFF, 0x7B, 0x00, 0x3C, 0x80, 0xBF, 0x10, 0x20, 0xC0, 0x40, 0xFE, 0xFB, 0x02, 0xC0])

BUFKINDS = {
    "ab8": ("new ArrayBuffer(8)", 8, None, False),
    "ab16": ("new ArrayBuffer(16)", 16, None, False),
    "rab": ("new ArrayBuffer(8,{maxByteLength:16})", 8, 16, False),
    "sab": ("new SharedArrayBuffer(8)", 8, None, True),
    "gsab": ("new SharedArrayBuffer(8,{maxByteLength:16})", 8, 16, True),
}
BUFKIND_ORDER = ["ab8", "ab16", "rab", "sab", "gsab"]
PARTNER = {"Int8": "Uint16", "Uint8": "Int16", "Uint8Clamped": "Int16", "Int16": "Uint8", "Uint16": "Int8",
           "Int32": "Uint16", "Uint32": "Int8", "Float16": "Float32", "Float32": "Float64", "Float64": "Float16",
           "BigInt64": "BigUint64", "BigUint64": "BigInt64"}
DV_TYPES = [t for t in M.TYPE_ORDER if t != "Uint8Clamped"]


def num_js(x):
    if isinstance(x, bool):
        return "true" if x else "false"
    if isinstance(x, int):
        return "%dn" % x
    if x != x:
        return "NaN"
    if x == math.inf:
        return "Infinity"
    if x == -math.inf:
        return "-Infinity"
    if x == 0 and math.copysign(1.0, x) < 0:
        return "-0"
    if x == int(x) and abs(x) < 1e15:
        return str(int(x))
    return repr(x)


# ------------------------------------------------------------------------------------------------------------------
# argument language: one description -> JS text and model value
#   ('n', float) ('b', int) ('s', str) ('u',) ('null',) ('t',)/('f',) booleans
#   ('L',) a.length  ('L1',) a.length-1  ('E0',) a[0]  ('EL',) a[a.length-1]
#   ('DE', k) DL()-k   (DataView positions relative to the view's current byteLength)
#   ('fx', effect, arg)  object whose valueOf performs the effect and returns arg (evaluated when the object is built)
# ------------------------------------------------------------------------------------------------------------------
def arg_js(x):
    k = x[0]
    if k == "n":
        return num_js(x[1])
    if k == "b":
        return "%dn" % x[1]
    if k == "s":
        return json.dumps(x[1])
    if k == "u":
        return "undefined"
    if k == "null":
        return "null"
    if k == "t":
        return "true"
    if k == "f":
        return "false"
    if k == "L":
        return "a.length"
    if k == "L1":
        return "a.length-1"
    if k == "E0":
        return "a[0]"
    if k == "EL":
        return "a[a.length-1]"
    if k == "DE":
        return "DL()-%d" % x[1]
    if k == "fx":
        return "FX(%s,%s)" % (json.dumps(x[1]), arg_js(x[2]))
    raise AssertionError(x)


def arg_val(x, w):
    k = x[0]
    if k == "n":
        return float(x[1])
    if k == "b":
        return int(x[1])
    if k == "s":
        return x[1]
    if k == "u":
        return None
    if k == "null":
        return M.NULL
    if k == "t":
        return True
    if k == "f":
        return False
    a = w.views.get("a")
    if k == "L":
        return float(a.length_getter())
    if k == "L1":
        return float(a.length_getter() - 1)
    if k == "E0":
        return a.get(0)
    if k == "EL":
        return a.get(a.length_getter() - 1)
    if k == "DE":
        d = w.views["d"]
        return float((0 if d.oob() else d.view_len()) - x[1])
    if k == "fx":
        return Fx(x[1], arg_val(x[2], w))
    raise AssertionError(x)


def key_js(x):
    """property keys: ('n', -1) ... or ('s', '1.5')"""
    return arg_js(x)


def key_val(x, w):
    v = arg_val(x, w)
    if isinstance(v, float):
        return int(v)
    return v            # "1.5" / "-0": canonical numeric strings that are never valid integer indices


U = ("u",)


class Raw(str):
    pass


def render(v):
    if isinstance(v, Raw):
        return str(v)
    if isinstance(v, list):
        return "[" + ",".join(render(x) for x in v) + "]"
    if isinstance(v, DV):
        return "DV"      # not used
    return M.render(v)


# ------------------------------------------------------------------------------------------------------------------
# operations: op = (name, *params); js text and model transition from the same tuple
# ------------------------------------------------------------------------------------------------------------------
def _args(xs):
    """drop trailing undefined arguments (so that `arguments.length` matters as little as possible... it does matter
    for lastIndexOf, which is why that op passes its fromIndex explicitly only when present)"""
    xs = list(xs)
    while xs and xs[-1] == U:
        xs.pop()
    return ",".join(arg_js(x) for x in xs)


def op_js(op):
    n = op[0]
    p = op[1:]
    if n == "resize":
        return "RS(%s)" % arg_js(p[0])
    if n == "detach":
        return "__detach(b)"
    if n == "bslice":
        return "b.slice(%s)" % _args(p)
    if n == "probe":
        k = key_js(p[0])
        return "[a[%s],(%s) in a,delete a[%s],Object.getOwnPropertyDescriptor(a,%s)]" % (k, k, k, k)
    if n == "put":
        k = key_js(p[0])
        return "(a[%s]=%s,a[%s])" % (k, arg_js(p[1]), k)
    if n == "define":
        k = key_js(p[0])
        return "(Object.defineProperty(a,%s,{value:%s}),a[%s])" % (k, arg_js(p[1]), k)
    if n == "fill":
        return "a.fill(%s)" % _args(p)
    if n == "set_list":
        return "a.set([%s]%s)" % (",".join(arg_js(x) for x in p[0]), "" if p[1] == U else "," + arg_js(p[1]))
    if n == "set_ta":
        src = {"c": "c", "sub1": "a.subarray(1)", "sub0": "a.subarray(0,a.length-1)"}[p[0]]
        return "a.set(%s%s)" % (src, "" if p[1] == U else "," + arg_js(p[1]))
    if n == "subarray":
        return "a.subarray(%s)" % _args(p)
    if n == "copyWithin":
        return "a.copyWithin(%s)" % _args(p)
    if n == "slice":
        return "a.slice(%s)" % _args(p)
    if n == "slice_sp":
        mode = p[0]
        if mode == "fwd":
            ctor = "new C(b,a.byteOffset+C.BYTES_PER_ELEMENT,n)"
        elif mode == "back":
            ctor = "new C(b,a.byteOffset,n)"
        else:
            ctor = "new %sArray(b,0,n)" % mode.split(":")[1]
        return ("(function(){var C=Object.getPrototypeOf(a).constructor,sp={};sp[Symbol.species]=function(n){return %s};"
                "a.constructor=sp;try{return a.slice(%s)}finally{delete a.constructor}})()" % (ctor, _args(p[1:])))
    if n == "filter":
        return "a.filter(function(v,i){if(i===0)FX(%s,0).valueOf();return true})" % json.dumps(p[0])
    if n == "findLastIndexU":
        return "(function(){var f=true;return a.findLastIndex(function(v){if(f){f=false;FX(%s,0).valueOf()}return v===undefined})})()" % json.dumps(p[0])
    if n == "afill":
        return "Array.prototype.fill.call(a,%s)" % _args(p)
    if n == "sort":
        if p[0] is None:
            return "a.sort()"
        return "a.sort(CMP(%s,%s))" % (json.dumps(p[0]), json.dumps(p[1]))
    if n == "toSorted":
        return "a.toSorted()"
    if n == "reverse":
        return "a.reverse()"
    if n == "toReversed":
        return "a.toReversed()"
    if n == "with":
        return "a.with(%s)" % _args(p)
    if n == "at":
        return "a.at(%s)" % _args(p)
    if n in ("indexOf", "includes", "lastIndexOf"):
        return "a.%s(%s)" % (n, ",".join(arg_js(x) for x in p))
    if n == "join":
        return "a.join()"
    if n == "iter":
        return "[...a]"
    if n == "keys":
        return "Object.keys(a)"
    if n == "map":
        return "a.map(function(v,i){if(i===0)FX(%s,0).valueOf();return v})" % json.dumps(p[0])
    if n == "forEach":
        return "(function(){var o=[];a.forEach(function(v,i){if(i===0)FX(%s,0).valueOf();o.push(v)});return o})()" % json.dumps(p[0])
    if n == "aload":
        return "Atomics.load(a,%s)" % arg_js(p[0])
    if n == "astore":
        return "Atomics.store(a,%s,%s)" % (arg_js(p[0]), arg_js(p[1]))
    if n == "aadd":
        return "Atomics.add(a,%s,%s)" % (arg_js(p[0]), arg_js(p[1]))
    if n == "acx":
        return "Atomics.compareExchange(a,%s,%s,%s)" % (arg_js(p[0]), arg_js(p[1]), arg_js(p[2]))
    if n == "newview":
        return "new %sArray(b%s)" % (p[0], "".join("," + arg_js(x) for x in _trim(p[1:])))
    if n == "copyview":
        return "new %sArray(a)" % p[0]
    if n == "newdv":
        return "new DataView(b%s)" % "".join("," + arg_js(x) for x in _trim(p))
    if n == "dvget":
        return "d.get%s(%s)" % (p[0], ",".join(arg_js(x) for x in _trim(p[1:])))
    if n == "dvset":
        return "d.set%s(%s)" % (p[0], ",".join(arg_js(x) for x in _trim(p[1:])))
    raise AssertionError(op)


def _trim(xs):
    xs = list(xs)
    while xs and xs[-1] == U:
        xs.pop()
    return xs


def op_apply(op, w):
    """performs the operation on the model world; returns the value the script prints (rendered by `render`)"""
    n = op[0]
    p = op[1:]
    a = w.views.get("a")
    V = lambda x: arg_val(x, w)                                     # noqa: E731
    if n == "resize":
        return w.resize(V(p[0]))
    if n == "detach":
        return w.detach()
    if n == "bslice":
        xs = list(p) + [U, U]
        s, e = V(xs[0]), V(xs[1])
        return w.buf_slice(s, e)
    if n == "probe":
        k = key_val(p[0], w)
        g = w.prop_get(a, k)
        has = w.prop_has(a, k)
        dele = w.prop_delete(a, k)
        desc = Raw("undefined") if g is None else Raw("{value:%s,writable:true,enumerable:true,configurable:true}" % M.show(g))
        return [g, has, dele, desc]
    if n == "put":
        k = key_val(p[0], w)
        w.prop_set(a, k, V(p[1]))
        k2 = key_val(p[0], w)          # the script re-evaluates the key expression for the read-back
        return w.prop_get(a, k2)
    if n == "define":
        k = key_val(p[0], w)
        w.prop_define(a, k, V(p[1]))
        return w.prop_get(a, key_val(p[0], w))
    if n == "fill":
        xs = [V(x) for x in p] + [None, None]
        return w.ta_fill(a, xs[0], xs[1], xs[2])
    if n == "set_list":
        vals = [V(x) for x in p[0]]
        return w.ta_set(a, vals, V(p[1]))
    if n == "set_ta":
        if p[0] == "c":
            src = w.views.get("c")
        elif p[0] == "sub1":
            src = w.ta_subarray(a, 1.0, None)
        else:
            src = w.ta_subarray(a, 0.0, float(a.length_getter() - 1))
        return w.ta_set(a, src, V(p[1]))
    if n == "subarray":
        xs = [V(x) for x in p] + [None, None]
        return w.ta_subarray(a, xs[0], xs[1])
    if n == "copyWithin":
        xs = [V(x) for x in p] + [None, None, None]
        return w.ta_copy_within(a, xs[0], xs[1], xs[2])
    if n == "slice":
        xs = [V(x) for x in p] + [None, None]
        return w.ta_slice(a, xs[0], xs[1])
    if n == "slice_sp":
        xs = [V(x) for x in p[1:]] + [None, None]
        return w.ta_slice_species(a, xs[0], xs[1], p[0])
    if n == "filter":
        return w.ta_filter(a, p[0])
    if n == "findLastIndexU":
        return w.ta_find_last_index_undefined(a, p[0])
    if n == "afill":
        xs = [V(x) for x in p] + [None, None]
        return w.array_fill(a, xs[0], xs[1], xs[2])
    if n == "sort":
        return w.ta_sort(a, p[0], p[1] if len(p) > 1 else None)
    if n == "toSorted":
        return w.ta_sort(a, None, None, into="copy")
    if n == "reverse":
        return w.ta_reverse(a)
    if n == "toReversed":
        return w.ta_to_reversed(a)
    if n == "with":
        return w.ta_with(a, V(p[0]), V(p[1]))
    if n == "at":
        return w.ta_at(a, V(p[0]))
    if n == "indexOf":
        xs = [V(x) for x in p] + [None]
        return w.ta_index_of(a, xs[0], xs[1])
    if n == "includes":
        xs = [V(x) for x in p] + [None]
        return w.ta_includes(a, xs[0], xs[1])
    if n == "lastIndexOf":
        xs = [V(x) for x in p]
        return w.ta_last_index_of(a, *xs)
    if n == "join":
        return w.ta_join(a)
    if n == "iter":
        return w.ta_iter(a)
    if n == "keys":
        return w.ta_keys(a)
    if n == "map":
        return w.ta_map(a, p[0])
    if n == "forEach":
        return w.ta_for_each(a, p[0])
    if n == "aload":
        return w.atomics_load(a, V(p[0]))
    if n == "astore":
        i, v = V(p[0]), V(p[1])
        return w.atomics_store(a, i, v)
    if n == "aadd":
        i, v = V(p[0]), V(p[1])
        return w.atomics_add(a, i, v)
    if n == "acx":
        i, e, x = V(p[0]), V(p[1]), V(p[2])
        return w.atomics_cx(a, i, e, x)
    if n == "newview":
        xs = [V(x) for x in p[1:]] + [None, None]
        return w.new_ta_on_buffer(p[0], w.b, xs[0], xs[1])
    if n == "copyview":
        return w.new_ta_from_ta(p[0], a)
    if n == "newdv":
        xs = [V(x) for x in p] + [None, None]
        dv = w.new_dv(w.b, xs[0], xs[1])
        return Raw("DV(%s@%s)" % (M.show(w.dv_byte_length(dv)), M.show(w.dv_byte_offset(dv))))
    if n == "dvget":
        xs = [V(x) for x in p[1:]] + [None, None]
        return w.dv_get(w.views["d"], p[0], xs[0], _truthy(xs[1]))
    if n == "dvset":
        xs = [V(x) for x in p[1:]] + [None, None, None]
        return w.dv_set(w.views["d"], p[0], xs[0], xs[1], _truthy(xs[2]))
    raise AssertionError(op)


def _truthy(v):
    return bool(v) if v is not None else False


def model_step(op, w):
    """apply op to w (mutating); returns the expected lines of the step: [result line] + dump"""
    w.nan_ranges = []
    try:
        res = render(op_apply(op, w))
    except JSErr as e:
        res = "E " + e.name
    return [res] + dump(w)


def dump(w):
    b = w.b
    if b.detached:
        lines = ["b 0 0 <!TypeError>"]
    else:
        n = len(b.data)
        lines = ["b %d %d %s" % (n, b.max if b.max is not None else n, M.hexbytes(b.data))]
    for name in ("a", "c"):
        v = w.views.get(name)
        if isinstance(v, TA):
            lines.append("%s %s %s %s" % (name, M.render_ta(v), M.show(v.get(0)), M.show(v.get(v.length_getter()))))
    d = w.views.get("d")
    if isinstance(d, DV):
        def t(f):
            try:
                return M.show(f())
            except JSErr as e:
                return "E " + e.name
        dl = 0 if d.oob() else d.view_len()
        lines.append("d %s %s %s %s" % (t(lambda: w.dv_byte_length(d)), t(lambda: w.dv_byte_offset(d)),
                                         t(lambda: w.dv_get(d, "Uint8", 0.0)), t(lambda: w.dv_get(d, "Uint8", float(dl)))))
    return lines


# ------------------------------------------------------------------------------------------------------------------
# worlds
# ------------------------------------------------------------------------------------------------------------------
def ta_worlds(kinds=None, types=None):
    out = []
    for kind in (kinds or BUFKIND_ORDER):
        for t in (types or M.TYPE_ORDER):
            size = M.size_of(t)
            offs = []
            for o in (0, size, 8):
                if o not in offs:
                    offs.append(o)
            for off in offs:
                for length in (None, 1, 2):
                    out.append(("ta", kind, t, off, length))
    return out


def dv_worlds(kinds=None):
    out = []
    for kind in (kinds or BUFKIND_ORDER):
        for off in (0, 1):
            for length in (None, 4):
                out.append(("dv", kind, off, length))
    return out


def setup(spec):
    """-> (js text of the world construction, model world, expected lines, explorable?)"""
    kind = spec[1]
    ctor, n, mx, shared = BUFKINDS[kind]
    w = World()
    w.b = Buf(n, mx, shared)
    w.b.data[:] = INIT[:n]
    js = ["b=%s;new Uint8Array(b).set([%s]);a=c=d=undefined;" % (ctor, ",".join(str(x) for x in INIT[:n]))]
    exp = []

    def mk(name, js_new, f):
        js.append("r(function(){%s=%s;return %s});" % (name, js_new, name))
        try:
            v = f()
            w.views[name] = v
            exp.append(M.render_ta(v) if isinstance(v, TA) else "DV(%s@%s)" % (M.show(w.dv_byte_length(v)), M.show(w.dv_byte_offset(v))))
        except JSErr as e:
            w.views[name] = None
            exp.append("E " + e.name)
    if spec[0] == "ta":
        _, _, t, off, length = spec
        args = "b,%d" % off + ("" if length is None else ",%d" % length)
        mk("a", "new %sArray(%s)" % (t, args), lambda: w.new_ta_on_buffer(t, w.b, float(off), None if length is None else float(length)))
        pt = PARTNER[t]
        cl = 2 if M.size_of(pt) <= 4 else 1
        mk("c", "new %sArray(b,0,%d)" % (pt, cl), lambda: w.new_ta_on_buffer(pt, w.b, 0.0, float(cl)))
        ok = w.views["a"] is not None
    else:
        _, _, off, length = spec
        args = "b,%d" % off + ("" if length is None else ",%d" % length)
        mk("d", "new DataView(%s)" % args, lambda: w.new_dv(w.b, float(off), None if length is None else float(length)))
        ok = w.views["d"] is not None
    js.append("D();")
    exp += dump(w)
    return "".join(js), w, exp, ok


# ------------------------------------------------------------------------------------------------------------------
# operation alphabets.  Each entry: (op, quick?)   quick alphabet = entries with quick True
# ------------------------------------------------------------------------------------------------------------------
def N(x):
    return ("n", float(x))


def fx(e, x):
    return ("fx", e, x)


LEVELS = {"tiny": 3, "core": 2, "quick": 1, "full": 0}


class _Alpha:
    """collects (op, level) with level 3 = tiny, 2 = core, 1 = quick, 0 = full only (tiny < core < quick < full)"""

    def __init__(self):
        self.ops = []

    def t(self, *op):
        self.ops.append((op, 3))

    def k(self, *op):
        self.ops.append((op, 2))

    def q(self, *op):
        self.ops.append((op, 1))

    def f(self, *op):
        self.ops.append((op, 0))

    def select(self, name):
        lv = LEVELS[name]
        return [op for op, l in self.ops if l >= lv]


def ta_alphabet(spec, name):
    _, kind, t, off, length = spec
    _, _, mx, shared = BUFKINDS[kind]
    big = M.is_big(t)
    size = M.size_of(t)
    V1 = ("b", 258) if big else N(258.5)
    V2 = ("b", -3) if big else N(-3)
    WRONG = N(1) if big else ("b", 1)
    A = _Alpha()
    t_, k, q, f = A.t, A.k, A.q, A.f
    S_ = "S"
    DG = "D" if not shared else "G"
    # --- buffer
    if mx is not None:
        for n in (0, 4, 8, 12, 16):
            t_("resize", N(n))
        # byte lengths that leave a partial trailing element for every element size > 1
        q("resize", N(5))
        q("resize", N(13))
        f("resize", N(17))
        f("resize", N(-1))
    else:
        k("resize", N(4))
    if not shared:
        t_("detach")
    q("bslice", N(2), N(6))
    f("bslice", N(-4))
    q("bslice", fx("Z", N(0)), N(8))
    f("bslice", N(0), fx("D", N(8)))
    # --- element access
    t_("probe", N(0))
    t_("probe", ("L1",))
    k("probe", ("L",))
    q("probe", N(-1))
    q("probe", ("s", "1.5"))
    q("probe", ("s", "-0"))
    k("put", N(0), V1)
    t_("put", ("L1",), V1)
    k("put", ("L",), V1)
    q("put", N(-1), V1)
    q("put", ("s", "1.5"), V1)
    q("put", ("s", "-0"), V1)
    q("put", N(0), fx("D", V2))
    q("put", N(0), fx(S_, V2))
    k("put", ("L1",), fx(S_, V2))
    q("put", ("L1",), fx("Z", V2))
    k("put", ("L",), fx("G", V2))
    q("put", N(0), WRONG)
    f("put", ("L",), WRONG)
    f("put", N(0), ("s", "7"))
    f("put", N(0), ("u",))
    f("put", ("L1",), N(math.nan) if not big else ("s", "0x10"))
    f("put", ("s", "1.5"), fx("D", V2))
    q("define", N(0), V2)
    q("define", ("L",), V2)
    q("define", ("L1",), fx(S_, V2))
    f("define", N(0), fx("D", V2))
    # --- fill
    k("fill", V1)
    q("fill", V2, N(1))
    q("fill", V1, N(-1))
    q("fill", V2, N(0), N(1))
    k("fill", fx(S_, V1))
    k("fill", V1, fx(S_, N(0)))
    q("fill", V2, N(0), fx("G", N(16)))
    f("fill", fx("D", V1))
    f("fill", V1, fx("D", N(0)))
    f("fill", fx("Z", V2), N(1))
    f("fill", WRONG)
    # --- set
    k("set_list", (V1, V2), U)
    q("set_list", (V1, V2), N(1))
    k("set_list", (V1, fx(S_, V2)), U)
    q("set_list", (fx("D", V1), V2), U)
    q("set_list", (V1,), fx(S_, N(0)))
    k("set_ta", "c", U)
    q("set_ta", "c", N(1))
    k("set_ta", "sub1", U)
    q("set_ta", "sub0", N(1))
    f("set_list", (fx("Z", V1), V2), N(1))
    f("set_list", (V1, V2), N(-1))
    f("set_list", (V1,), N(math.inf))
    f("set_list", (WRONG,), U)
    f("set_ta", "c", fx(S_, N(0)))
    f("set_ta", "sub1", fx("D", N(0)))
    # --- subarray / slice / copyWithin
    k("subarray", N(1))
    q("subarray", N(0), N(1))
    q("subarray", N(-1))
    k("subarray", fx(S_, N(1)))
    q("subarray", N(0), fx(S_, N(1)))
    f("subarray", fx("D", N(0)))
    f("subarray", fx("Z", N(0)), N(1))
    f("subarray", fx("G", N(1)))
    q("copyWithin", N(0), N(1))
    k("copyWithin", N(1), N(0))
    q("copyWithin", N(0), N(1), N(2))
    k("copyWithin", N(1), N(0), fx(S_, N(16)))
    q("copyWithin", fx(S_, N(0)), N(1))
    q("copyWithin", N(0), fx(S_, N(1)))
    f("copyWithin", N(1), N(0), fx("D", N(16)))
    f("copyWithin", N(0), N(1), fx("Z", N(16)))
    f("copyWithin", N(1), fx("G", N(0)))
    if mx is not None and not shared:
        # the buffer shrinks, in the middle of the call, to a byte length that is not a multiple of the element size
        q("copyWithin", N(0), N(1), fx("P", N(16)))
        q("copyWithin", N(1), N(0), fx("P", N(16)))
        q("copyWithin", N(0), fx("P", N(1)))
        f("copyWithin", N(0), N(1), fx("Q", N(16)))
        f("copyWithin", N(2), N(0), fx("Q", N(3)))
        q("slice", N(0), fx("P", N(16)))
        f("slice", fx("Q", N(1)))
        q("fill", V1, N(0), fx("P", N(16)))
        f("fill", V2, fx("Q", N(0)))
        q("subarray", N(0), fx("P", N(16)))
        f("set_ta", "c", fx("P", N(0)))
        f("with", fx("P", N(0)), V1)
        f("includes", ("EL",), fx("P", N(0)))
        q("put", ("L1",), fx("P", V2))
    q("slice", N(0), N(1))
    k("slice", N(1))
    q("slice", N(-1))
    k("slice", N(0), fx(S_, N(2)))
    q("slice", fx("Z", N(0)))
    f("slice", fx("D", N(0)), N(1))
    f("slice", N(0), fx("G", N(16)))
    k("slice_sp", "fwd", N(0), N(-1))
    q("slice_sp", "back", N(1))
    q("slice_sp", "partner:" + PARTNER[t], N(0), N(1))
    f("slice_sp", "fwd", N(0), fx(S_, N(-1)))
    f("slice_sp", "back", fx("G", N(1)))
    q("filter", S_)
    f("filter", "N")
    q("findLastIndexU", S_)
    f("findLastIndexU", "Z")
    q("afill", V1, N(1))
    q("afill", fx(S_, V2))
    f("afill", V1, fx(S_, N(0)))
    # --- sort / reverse
    k("sort", None)
    q("sort", "desc", None)
    k("sort", "desc", S_)
    q("sort", "desc", DG)
    f("sort", "zero", None)
    f("sort", "desc", "Z")
    q("toSorted")
    k("reverse")
    q("toReversed")
    q("with", N(0), V1)
    k("with", ("L1",), fx(S_, V1))
    f("with", N(-1), V2)
    f("with", ("L",), V1)
    f("with", fx("Z", N(0)), V1)
    # --- read-only searches
    k("at", N(-1))
    q("at", N(0))
    q("at", ("L",))
    q("at", fx(S_, N(0)))
    k("at", fx(S_, N(-1)))
    q("indexOf", N(math.nan))
    q("includes", N(math.nan))
    k("indexOf", ("E0",))
    q("lastIndexOf", ("E0",))
    k("includes", ("u",), fx(S_, N(0)))
    q("indexOf", ("E0",), fx(S_, N(0)))
    q("includes", ("EL",), fx("Z", N(0)))
    q("lastIndexOf", ("EL",), fx(S_, N(16)))
    f("lastIndexOf", ("EL",), N(-1))
    f("indexOf", ("EL",), N(-1))
    f("includes", ("E0",), N(1))
    k("join")
    t_("iter")
    q("keys")
    k("map", S_)
    q("forEach", "Z")
    f("map", "N")
    f("map", DG)
    # --- Atomics
    if M.is_atomic_ok(t):
        q("aload", N(0))
        k("aload", ("L1",))
        q("aload", ("L",))
        q("astore", N(0), V1)
        k("astore", ("L1",), V2)
        q("astore", ("L",), V1)
        q("aadd", N(0), V1)
        q("aadd", ("L1",), V2)
        k("acx", N(0), ("E0",), V1)
        q("acx", N(0), V1, V2)
        f("astore", N(0), fx(S_, V1))
        k("astore", ("L1",), fx(S_, V1))
        f("aadd", ("L1",), fx("Z", V1))
        q("acx", ("L1",), ("EL",), fx(DG, V1))
        q("aload", fx(S_, N(0)))
        f("astore", fx(S_, ("L1",)), V1)
        f("astore", N(-1), V1)
        f("aload", fx("D", N(0)))
        f("aadd", N(0), fx("G", V2))
        f("acx", ("L1",), fx(S_, V1), V2)
        f("astore", N(0), WRONG)
    else:
        q("aload", N(0))
        q("astore", N(0), V1)
    # --- views constructed on the current buffer
    k("newview", t, N(0), U)
    k("newview", t, N(size), N(1))
    q("newview", PARTNER[t], N(0), N(2))
    k("copyview", t)
    f("newview", t, N(8), U)
    f("newview", t, N(size), fx(S_, N(1)))
    f("newview", t, fx("Z", N(0)), U)
    f("newview", t, N(1), U)
    return A.select(name)


def dv_alphabet(spec, name):
    _, kind, off, length = spec
    _, _, mx, shared = BUFKINDS[kind]
    A = _Alpha()
    t_, k, q, f = A.t, A.k, A.q, A.f
    if mx is not None:
        for n in (0, 4, 8, 12, 16):
            t_("resize", N(n))
    else:
        k("resize", N(4))
    if not shared:
        t_("detach")
    q("bslice", N(1), N(5))
    positions = [N(0), N(1)]
    core_types = ("Uint8", "Int16", "Float32", "BigInt64")
    quick_set = ("Uint16", "Float32", "BigInt64")
    for t in DV_TYPES:
        size = M.size_of(t)
        big = M.is_big(t)
        V1 = ("b", 258) if big else N(258.5)
        V2 = ("b", -3) if big else N(-3)
        pos = positions + [("DE", size), ("DE", size - 1)]
        core = t in core_types
        for le in (("t",), ("f",)):
            for i, ps in enumerate(pos):
                (k if (core and i in (1, 2, 3)) else q)("dvget", t, ps, le)
            for i, ps in enumerate(pos):
                if core and i == 2 and le == ("t",):
                    (t_ if t == "Int16" else k)("dvset", t, ps, V1, le)
                elif t in quick_set and i in (1, 2):
                    q("dvset", t, ps, V1, le)
                else:
                    f("dvset", t, ps, V1, le)
        q("dvget", t, N(0), U)
        f("dvset", t, N(1), V2, U)
        (k if core else q)("dvget", t, fx("S", N(0)), ("t",))
        (k if core else q)("dvset", t, N(0), fx("Z", V1), ("t",))
        q("dvset", t, fx("S", N(1)), V2, ("f",))
        f("dvget", t, fx("D", N(0)), ("f",))
        f("dvset", t, N(0), fx("D" if not shared else "G", V2), ("f",))
        f("dvget", t, N(-1), ("t",))
        f("dvset", t, ("DE", size), fx("G", V1), ("t",))
    k("newdv", N(0), U)
    q("newdv", N(1), N(4))
    q("newdv", N(8), U)
    q("newdv", N(9), U)
    f("newdv", fx("S", N(4)), N(4))
    f("newdv", N(0), fx("Z", N(1)))
    return A.select(name)


def alphabet(spec, name):
    return ta_alphabet(spec, name) if spec[0] == "ta" else dv_alphabet(spec, name)


# ------------------------------------------------------------------------------------------------------------------
# running jobs on the engine (inside a worker process): handles panics (poisoned jobs) and aborts
# ------------------------------------------------------------------------------------------------------------------
def run_groups(groups):
    """groups: list of (pdef_js, [run_js...]).  -> list of [step result or None...] aligned with the runs, plus the
    setup results.  A RustPanic ends the job; the remaining runs are re-submitted in a fresh context."""
    out = [[None] * len(runs) for _, runs in groups]
    pending = [(gi, 0) for gi in range(len(groups))]
    guard = 0
    while pending:
        guard += 1
        if guard > 10000:
            raise core.MachineryError("c15: too many job restarts")
        jobs = []
        for gi, start in pending:
            pdef, runs = groups[gi]
            jobs.append({"kind": "c15", "hist": [HELPERS, pdef] + runs[start:]})
        res = core.run_jobs(jobs, binary=VC15, nproc=1, chunk=max(1, len(jobs)))
        nxt = []
        for (gi, start), r in zip(pending, res):
            pdef, runs = groups[gi]
            steps = r.get("steps")
            if steps is None:
                # the whole process died (Abort/Hang): isolate by running the runs one per job
                if len(runs) - start == 1:
                    out[gi][start] = {"lines": r.get("lines", []), "completion": r.get("completion", "Abort ?")}
                else:
                    mid = start + 1
                    # run the first alone, then the rest
                    one = core.run_jobs([{"kind": "c15", "hist": [HELPERS, pdef, runs[start]]}], binary=VC15, nproc=1, chunk=1)[0]
                    st = one.get("steps")
                    if st is None or len(st) < 3:
                        out[gi][start] = {"lines": [], "completion": one.get("completion") or (st[-1]["completion"] if st else "Abort ?")}
                    else:
                        out[gi][start] = st[2]
                    nxt.append((gi, mid))
                continue
            # steps[0] = helpers, steps[1] = pdef, then runs
            for k, s in enumerate(steps[2:]):
                out[gi][start + k] = s
            if len(steps) < 2:
                raise core.MachineryError("c15: helper source failed: " + json.dumps(r)[:400])
            for s in steps[:2]:
                if not str(s.get("completion", "")).startswith("Value"):
                    raise core.MachineryError("c15: helper/pdef source did not complete: " + json.dumps(s)[:400])
            done = start + len(steps) - 2
            if done < len(runs):
                nxt.append((gi, done))
        pending = nxt
    return out


def pdef_js(setup_js, hist_js):
    body = setup_js + "".join("r(function(){return %s});D();" % h for h in hist_js)
    return "function P(){" + body + "}"


def run_js(opjs):
    return "P();r(function(){return %s});D();" % opjs


def adopt_nans(w, got_lines, nsetup):
    """a value-level NaN store may use any NaN encoding: take the implementation's bytes for those ranges"""
    if not w.nan_ranges or w.b.detached:
        return False
    idx = nsetup + 1
    if idx >= len(got_lines):
        return False
    line = got_lines[idx]
    if not line.startswith("b ") or "<" not in line or not line.endswith(">"):
        return False
    body = line[line.index("<") + 1:-1]
    try:
        raw = bytes(int(x) for x in body.split(" ")) if body else b""
    except ValueError:
        return False
    if len(raw) != len(w.b.data):
        return False
    changed = False
    for pos, t, little in w.nan_ranges:
        size = M.size_of(t)
        if pos + size > len(raw):
            continue
        mine = bytes(w.b.data[pos:pos + size])
        theirs = raw[pos:pos + size]
        if mine != theirs and M.is_nan_encoding(t, mine, little) and M.is_nan_encoding(t, theirs, little):
            w.b.data[pos:pos + size] = theirs
            changed = True
    return changed


class Node:
    __slots__ = ("hist", "hist_js", "exp", "w", "gpath")

    def __init__(self, hist, hist_js, exp, w, gpath):
        self.hist, self.hist_js, self.exp, self.w, self.gpath = hist, hist_js, exp, w, gpath


def geometry(w):
    return "D" if w.b.detached else len(w.b.data)


class WorldRun:
    """BFS over one world, driven level by level (so that many worlds can share one engine process per level).

    task = (spec, plan, cap) with plan = [(alphabet name, parent filter), ...] per level: alphabet in
    tiny < core < quick < full; parent filter 'all' = every newly discovered model state is extended, 'geom' = only the
    first state of every not yet extended *geometry path* (sequence of buffer lengths / detached along the history,
    consecutive duplicates removed)."""

    def __init__(self, task):
        self.spec, self.plan, self.max_nodes = task
        self.setup_js, w0, self.exp0, self.ok = setup(self.spec)
        self.summ = {"spec": self.spec, "states": 1, "transitions": 0, "validated": 0, "histories": 0, "viol": [], "outcomes": set(),
                     "levels": [], "capped": False, "merged": 0, "sample": None, "nontrivial": 0, "pruned": 0, "depth": 0}
        self.level = 0
        self.seen = {w0.key()}
        self.frontier = [Node([], [], self.exp0, w0, (geometry(w0),))]
        self.used_paths = {self.frontier[0].gpath}
        self.failed_ops = set()   # ops that already produced a violation in this world: reported once, with the shortest history
        self.done = False
        self.metas = None

    def prepare(self):
        """-> list of groups (pdef, runs) for the next level, [] when finished"""
        if self.done:
            return []
        if not self.ok:
            return [(pdef_js(self.setup_js, []), ["P();"])]
        self.level += 1
        aname = self.plan[self.level - 1][0]
        ops_all = alphabet(self.spec, aname)
        self.ops = [op for op in ops_all if op not in self.failed_ops]
        self.summ["pruned"] += (len(ops_all) - len(self.ops)) * len(self.frontier)
        opjs = [op_js(op) for op in self.ops]
        groups = []
        self.metas = []
        for node in self.frontier:
            runs = []
            meta = []
            for op, oj in zip(self.ops, opjs):
                w = node.w.clone()
                lines = model_step(op, w)
                runs.append(run_js(oj))
                meta.append((op, oj, w, lines))
            groups.append((pdef_js(self.setup_js, node.hist_js), runs))
            self.metas.append(meta)
        return groups

    def absorb(self, results):
        summ, spec = self.summ, self.spec
        if not self.ok:
            summ["transitions"] += 1
            summ["validated"] += 1
            summ["histories"] += 1
            check_run(summ, spec, [], None, self.exp0, results[0][0], self.setup_js)
            self.done = True
            return
        level, plan = self.level, self.plan
        nxt = []
        for node, meta, res in zip(self.frontier, self.metas, results):
            for (op, oj, w, lines), r in zip(meta, res):
                got = r.get("lines", []) if r else []
                exp = node.exp + lines
                if got != exp and adopt_nans(w, got, len(node.exp)):
                    lines = [lines[0]] + dump(w)
                    exp = node.exp + lines
                summ["transitions"] += len(node.hist) + 1
                summ["validated"] += len(node.hist) + 1
                summ["histories"] += 1
                good = check_run(summ, spec, node.hist, op, exp, r, self.setup_js, node.hist_js, oj)
                summ["outcomes"].add(core.sha12(lines))
                nontrivial = lines[0] != "undefined" or lines[1:] != node.exp[-(len(lines) - 1):]
                if nontrivial:
                    summ["nontrivial"] += 1
                if not good:
                    self.failed_ops.add(op)
                    continue                # do not extend a state on which model and engine already disagree
                key = w.key()
                if key in self.seen:
                    summ["merged"] += 1
                    continue
                self.seen.add(key)
                g = geometry(w)
                gpath = node.gpath if node.gpath[-1] == g else node.gpath + (g,)
                nxt.append(Node(node.hist + [op], node.hist_js + [oj], exp, w, gpath))
                if level == len(plan) or summ["sample"] is None:
                    summ["sample"] = {"world": world_name(spec), "history": node.hist_js + [oj], "last_step_expected_and_observed": lines}
        summ["levels"].append({"level": level, "alphabet": plan[level - 1][0], "parents": len(self.frontier), "ops": len(self.ops),
                               "states_so_far": len(self.seen)})
        summ["states"] = len(self.seen)
        summ["depth"] = level
        self.metas = None
        if level >= len(plan):
            self.done = True
            return
        if plan[level][1] == "geom":
            keep = []
            for n in nxt:
                if n.gpath not in self.used_paths:
                    self.used_paths.add(n.gpath)
                    keep.append(n)
            nxt = keep
        else:
            for n in nxt:
                self.used_paths.add(n.gpath)
        if self.max_nodes and len(nxt) > self.max_nodes:
            summ["capped"] = True
            nxt = nxt[:self.max_nodes]
        self.frontier = nxt
        if not nxt:
            self.done = True


def explore_bundle(tasks):
    """several worlds in lockstep: one engine process per level for the whole bundle (process start-up of the
    harness binary costs about 0.15 s of CPU, far more than a history)."""
    runs = [WorldRun(t) for t in tasks]
    while True:
        parts = [(wr, wr.prepare()) for wr in runs if not wr.done]
        parts = [(wr, g) for wr, g in parts if g]
        if not parts:
            break
        allg = [g for _, gs in parts for g in gs]
        res = run_groups(allg)
        k = 0
        for wr, gs in parts:
            wr.absorb(res[k:k + len(gs)])
            k += len(gs)
    return [finish_world(wr.summ) for wr in runs]


def explore_world(task):
    return explore_bundle([task])[0]


def finish_world(summ):
    summ["outcomes"] = sorted(summ["outcomes"])
    shutil.rmtree(core._tmpdir(), ignore_errors=True)
    return summ


def check_run(summ, spec, hist, op, exp, r, setup_js, hist_js=(), oj=None):
    comp = (r or {}).get("completion")
    got = (r or {}).get("lines", [])
    if r is not None and got == exp and str(comp).startswith("Value"):
        return True
    # first differing line
    k = 0
    while k < len(exp) and k < len(got) and exp[k] == got[k]:
        k += 1
    case = {"world": list(spec), "hist": [list(_plain(o)) for o in hist], "op": list(_plain(op)) if op else None}
    if core.is_bad(comp) or not str(comp).startswith("Value"):
        observed = {"completion": _strip_loc(comp), "at_line": k}
        what = "%s after %s: completion %s" % (world_name(spec), " ; ".join(list(hist_js) + ([oj] if oj else [])), comp)
    else:
        observed = {"line": k, "got": got[k] if k < len(got) else None}
        what = "%s: %s -> line %d: got %r expected %r" % (world_name(spec), " ; ".join(list(hist_js) + ([oj] if oj else [])), k,
                                                            got[k] if k < len(got) else None, exp[k] if k < len(exp) else None)
    replay = {"kind": "c15", "hist": [HELPERS, pdef_js(setup_js, list(hist_js)), run_js(oj) if oj else "P();"]}
    cls = classify(spec, op, exp, got, k, comp)
    summ["viol"].append({"case": case, "observed": observed, "what": "[%s] %s" % (cls, what), "replay": replay, "expected": exp, "got": got,
                         "completion": comp, "class": cls})
    return False


def _strip_loc(comp):
    """panic location without the line number (unrelated edits of the engine move lines)"""
    return re.sub(r"(\.rs):\d+", r"\1", str(comp))


def _plain(o):
    """JSON-able, stable form of an op (floats nan/inf as strings)"""
    if o is None:
        return None
    out = []
    for x in o:
        if isinstance(x, tuple):
            out.append(list(_plain(x)))
        elif isinstance(x, float):
            out.append(num_js(x))
        else:
            out.append(x)
    return out


def world_name(spec):
    if spec[0] == "ta":
        return "%s %sArray(b,%d%s)" % (spec[1], spec[2], spec[3], "" if spec[4] is None else ",%d" % spec[4])
    if spec[0] == "dv":
        return "%s DataView(b,%d%s)" % (spec[1], spec[2], "" if spec[3] is None else ",%d" % spec[3])
    return str(spec)


def classify(spec, op, exp, got, k, comp):
    """root-cause class of a history violation (only used to group the known-findings lists)"""
    name = op[0] if op else "setup"
    if core.is_bad(comp):
        if name in ("aload", "astore", "aadd", "acx"):
            return "atomics-shrink-panic"
        if name == "bslice":
            return "arraybuffer-slice-shrink-panic"
        return "panic-" + name
    if spec[0] == "ta" and "Float16" in (spec[2], PARTNER[spec[2]]) and name in ("set_ta", "set_list", "put", "fill", "sort", "reverse", "map", "filter",
                                                                               "with", "toSorted", "toReversed", "define", "afill", "slice_sp"):
        return "float16-rounding"
    if spec[0] == "dv" and op and len(op) > 1 and op[1] == "Float16":
        return "float16-rounding"
    return "mismatch-" + name


def classify_conv(case, route):
    if case[1] == "store":
        if route.startswith("[Atomics"):
            return "atomics-tointeger-clamp"
        if case[2] == "Float16":
            return "float16-rounding"
        return "toint-saturation"
    t1, t2 = case[2], case[3]
    if t2 == "Float16":
        return "float16-rounding"
    if route.startswith("new "):
        return "typedarray-ctor-cast"
    return "toint-saturation"


# ------------------------------------------------------------------------------------------------------------------
# conversion table (single-step cases, stateless): every element type x value x store route; every ordered type pair
# ------------------------------------------------------------------------------------------------------------------
NUM_VALUES = [math.nan, 0.0, -0.0, math.inf, -math.inf, 3.5e38, -3.5e38, 2.0 ** 31, 2.0 ** 32 + 1, 2.0 ** 53 + 2, 2.0 ** 63,
              2.0 ** 64 + 3, -1.0, 127.0, 128.0, 239.0, 255.0, 256.0, 0.5, 1.5, 2.5, -0.5, -1.5, 65504.0, 65520.0, 1e-8,
              # neighbours of the boundaries
              -(2.0 ** 63), 2.0 ** 63 + 2048, -(2.0 ** 63) - 2048, 2.0 ** 32 - 1, -(2.0 ** 31) - 1, 4294967295.9, -128.5, 32768.0, 65535.0,
              65519.99, 5.960464477539063e-08, 2.9802322387695312e-08, 2.98023223876953125e-08 * 1.0000001, 1.401298464324817e-45,
              7.006492321624085e-46, 3.4028235677973366e38, 3.4028234663852886e38, 1.0000000596046448, 254.5, 253.5, 0.49999999999999994,
              1e21, 1.7976931348623157e308, 5e-324,
              # just above / just below a binary16 tie between 1 and 1+2^-10 (the difference sits in the low 32 bits of the double)
              1.000488281250001, 1.0004882812499998, 16777217.0, 16777219.0]
OTHER_NUM = [("s", "12"), ("s", " 0x10 "), ("s", "abc"), ("s", ""), ("s", "-Infinity"), ("s", "1e3"), ("null",), ("u",), ("t",), ("b", 1)]
BIG_VALUES = [0, -1, 1, 127, 128, 255, 256, 2 ** 63 - 1, 2 ** 63, 2 ** 64 - 1, 2 ** 64, 2 ** 64 + 3, -(2 ** 63), -(2 ** 63) - 1, -(2 ** 64) - 5, 2 ** 100 + 7]
OTHER_BIG = [("s", "5"), ("s", "0x10"), ("s", "abc"), ("s", "1.5"), ("t",), ("n", 1.0), ("u",), ("null",)]


def conv_values(t):
    if M.is_big(t):
        return [("b", v) for v in BIG_VALUES] + OTHER_BIG
    return [("n", v) for v in NUM_VALUES] + OTHER_NUM


def conv_store_case(t, val):
    """one script: value `val` into element type t through every store route.  -> (js, expected lines)"""
    vjs = arg_js(val)
    w = World()
    w.b = Buf(16)
    js = ["b=new ArrayBuffer(16);a=new %sArray(b);c=d=undefined;" % t]
    a = TA(w.b, t, 0, 16 // M.size_of(t))
    w.views["a"] = a
    exp = []

    def step(jsx, f):
        js.append("r(function(){return %s});" % jsx)
        try:
            exp.append(render(f()))
        except JSErr as e:
            exp.append("E " + e.name)
    V = lambda: arg_val(val, w)                                   # noqa: E731

    def store():
        w.prop_set(a, 0, V())
        return [a.get(0), Raw("B" + M.hexbytes(w.b.data))]
    step("(a[0]=%s,[a[0],b])" % vjs, store)
    step("a.fill(%s,1)" % vjs, lambda: w.ta_fill(a, V(), 1.0))
    step("new %sArray([%s])" % (t, vjs), lambda: w.new_ta_from_values(t, [V()]))
    step("%sArray.of(%s)" % (t, vjs), lambda: w.new_ta_from_values(t, [V()]))
    step("%sArray.from([%s])" % (t, vjs), lambda: w.new_ta_from_values(t, [V()]))
    step("(a.set([%s],1),a)" % vjs, lambda: (w.ta_set(a, [V()], 1.0), a)[1])
    step("a.with(0,%s)" % vjs, lambda: w.ta_with(a, 0.0, V()))
    if t != "Uint8Clamped":
        js.append("d=new DataView(b);")
        d = DV(w.b, 0, 16)
        w.views["d"] = d
        for le in (True, False):
            def dvs(le=le):
                w.dv_set(d, t, 1.0, V(), le)
                return [w.dv_get(d, t, 1.0, le), w.dv_get(d, t, 1.0, not le), Raw("B" + M.hexbytes(w.b.data))]
            lj = "true" if le else "false"
            step("(d.set%s(1,%s,%s),[d.get%s(1,%s),d.get%s(1,!%s),b])" % (t, vjs, lj, t, lj, t, lj), dvs)
    if M.is_atomic_ok(t):
        # last, on a zeroed element, so that a wrong store cannot disturb the other routes
        n = 16 // M.size_of(t) - 1
        js.append("a[%d]=%s;" % (n, "0n" if M.is_big(t) else "0"))
        w.prop_set(a, n, 0 if M.is_big(t) else 0.0)
        step("[Atomics.store(a,%d,%s),a[%d]]" % (n, vjs, n), lambda: [w.atomics_store(a, float(n), V()), a.get(n)])
        js.append("a[%d]=%s;" % (n, "0n" if M.is_big(t) else "0"))
        w.prop_set(a, n, 0 if M.is_big(t) else 0.0)
        step("[Atomics.add(a,%d,%s),a[%d]]" % (n, vjs, n), lambda: [w.atomics_add(a, float(n), V()), a.get(n)])
        js.append("a[%d]=%s;" % (n, "0n" if M.is_big(t) else "0"))
        w.prop_set(a, n, 0 if M.is_big(t) else 0.0)
        step("[Atomics.compareExchange(a,%d,%s,%s),a[%d]]" % (n, "0n" if M.is_big(t) else "-0", vjs, n),
             lambda: [w.atomics_cx(a, float(n), 0 if M.is_big(t) else -0.0, V()), a.get(n)])
    return "".join(js), exp


def conv_pair_case(t1, t2):
    """t1 array holding every alphabet value (as converted by t1) -> new t2(t1), t2.set(t1), and a same-buffer overlap"""
    w = World()
    vals = [("b", v) for v in BIG_VALUES] if M.is_big(t1) else [("n", v) for v in NUM_VALUES]
    src = w.new_ta_from_values(t1, [arg_val(v, w) for v in vals])
    held = [src.get(k) for k in range(len(vals))]          # exactly representable in t1: trivial conversions only
    js = ["a=c=d=undefined;b=new ArrayBuffer(8);var s=new %sArray([%s]);" % (t1, ",".join(num_js(v) for v in held))]
    exp = []

    def step(jsx, f):
        js.append("r(function(){return %s});" % jsx)
        try:
            exp.append(render(f()))
        except JSErr as e:
            exp.append("E " + e.name)
    step("s", lambda: src)
    step("new %sArray(s)" % t2, lambda: w.new_ta_from_ta(t2, src))

    def set_():
        dst = TA(Buf(len(vals) * M.size_of(t2)), t2, 0, len(vals))
        w._set_from_ta(dst, 0, src)
        return dst
    step("(function(){var t=new %sArray(%d);t.set(s);return t})()" % (t2, len(vals)), set_)
    return "".join(js), exp


# ------------------------------------------------------------------------------------------------------------------
def conv_cases():
    out = []
    for t in M.TYPE_ORDER:
        for v in conv_values(t):
            out.append((("conv", "store", t, _plain((v,))[0]), ) + conv_store_case(t, v))
    for t1 in M.TYPE_ORDER:
        for t2 in M.TYPE_ORDER:
            out.append((("conv", "pair", t1, t2), ) + conv_pair_case(t1, t2))
    return out


def run_conv(chunk):
    """worker: list of (case, js, exp) -> summary"""
    summ = {"viol": [], "n": 0, "validated": 0, "outcomes": set(), "nontrivial": 0}
    groups = [("function P(){}", [js for _, js, _ in chunk])]
    res = run_groups(groups)[0]
    for (case, js, exp), r in zip(chunk, res):
        summ["n"] += 1
        got = (r or {}).get("lines", [])
        comp = (r or {}).get("completion")
        summ["outcomes"].add(core.sha12(exp))
        summ["nontrivial"] += 1
        # one comparison per printed line (each line is one store route)
        bad = [k for k in range(max(len(exp), len(got))) if k >= len(exp) or k >= len(got) or exp[k] != got[k]]
        summ["validated"] += len(exp)
        if not str(comp).startswith("Value"):
            bad = bad or [len(got)]
        for k in bad:
            route = route_of(js, k)
            c = {"case": list(case), "route": route}
            cls = "panic-conv" if core.is_bad(comp) else classify_conv(case, route)
            summ["viol"].append({"case": c, "observed": {"got": got[k] if k < len(got) else None, "completion": _strip_loc(comp) if not str(comp).startswith("Value") else None},
                                 "what": "[%s] conv %s route `%s`: got %r expected %r" % (cls, " ".join(str(x) for x in case[1:]), route, got[k] if k < len(got) else None,
                                                                                        exp[k] if k < len(exp) else None),
                                 "replay": {"kind": "c15", "hist": [HELPERS, "function P(){}", js]}, "expected": exp, "got": got, "completion": comp,
                                 "class": cls})
    summ["outcomes"] = sorted(summ["outcomes"])
    shutil.rmtree(core._tmpdir(), ignore_errors=True)
    return summ


def route_of(js, k):
    parts = js.split("r(function(){return ")
    if k + 1 < len(parts):
        return parts[k + 1].split("});")[0]
    return "?"


# ------------------------------------------------------------------------------------------------------------------
# tiers
# ------------------------------------------------------------------------------------------------------------------
def plan_for(spec, tier):
    """[(alphabet, parent filter)] per level; see explore_world"""
    kind = spec[1]
    resizable = BUFKINDS[kind][2] is not None
    if tier == "quick":
        return [("quick", "all"), ("core", "geom")]
    # thorough
    if resizable:
        return [("full", "all"), ("quick", "all"), ("tiny", "all"), ("core", "geom")]
    return [("full", "all"), ("core", "all"), ("core", "geom")]


def tasks_for(tier):
    specs = ta_worlds() + dv_worlds()
    cap = int(os.environ.get("C15_MAX_NODES", "0")) or None
    return [(s, plan_for(s, tier), cap) for s in specs]


def weight(task):
    spec, plan, _ = task
    w = 1
    for aname, pf in plan:
        w *= {"full": 40, "quick": 30, "core": 12, "tiny": 4}[aname] if pf == "all" else 2
    if BUFKINDS[spec[1]][2] is not None:
        w *= 4
    return -w


def run(chk):
    tier = chk.tier
    tasks = tasks_for(tier)
    order = sorted(range(len(tasks)), key=lambda i: (weight(tasks[i]), i))
    nb = core.NPROC * 2
    bundles = [[i for i in order[k::nb]] for k in range(nb)]
    bundles = [bd for bd in bundles if bd]
    conv = conv_cases()
    nchunks = core.NPROC
    conv_chunks = [conv[i::nchunks] for i in range(nchunks)]
    with Pool(core.NPROC) as pool:
        conv_async = pool.map_async(run_conv, conv_chunks, chunksize=1)
        res_b = pool.map(explore_bundle, [[tasks[i] for i in bd] for bd in bundles], chunksize=1)
        conv_res = conv_async.get()
    results = [None] * len(tasks)
    for bd, rs in zip(bundles, res_b):
        for i, r in zip(bd, rs):
            results[i] = r
    outcomes = set()
    viols = []
    fam = {}
    pruned_total = [0]
    for t, s in zip(tasks, results):
        spec = t[0]
        name = "%s/%s" % (spec[0], spec[1])
        f = fam.setdefault(name, {"worlds": 0, "states": 0, "histories": 0, "transitions": 0, "merged": 0, "violations": 0, "plan": None})
        f["worlds"] += 1
        f["states"] += s["states"]
        f["histories"] += s["histories"]
        f["transitions"] += s["transitions"]
        f["merged"] += s["merged"]
        f["violations"] += len(s["viol"])
        f["plan"] = ["%s/%s" % x for x in t[1]]
        f["pruned_after_violation"] = f.get("pruned_after_violation", 0) + s["pruned"]
        f["max_depth"] = max(f.get("max_depth", 0), s["depth"])
        chk.add(states=s["states"], transitions=s["transitions"], traces_validated_against_impl=s["validated"], evaluations=s["histories"],
                distinct_nontrivial=s["nontrivial"])
        outcomes.update(s["outcomes"])
        viols += s["viol"]
        if s["pruned"]:
            pruned_total[0] += s["pruned"]
        if s["capped"]:
            chk.cov["exhaustive"] = False
            chk.cov["caps_hit"].append("world %s: frontier cut to C15_MAX_NODES" % world_name(spec))
        if s["sample"] and spec[1] in ("rab", "gsab") and len(chk.cov["samples"]) < 4 and (spec[0] == "dv" or spec[3] != 0):
            chk.sample(s["sample"])
    for name in sorted(fam):
        chk.part(name, **fam[name])
    if pruned_total[0]:
        chk.cov["exhaustive"] = False
        chk.cov["caps_hit"].append("an operation that produced a violation in a world is reported once (shortest history) and not re-applied at deeper "
                                   "levels of that world: %d longer histories ending in such an operation were not run; everything else was" % pruned_total[0])
    cn = sum(s["n"] for s in conv_res)
    cv = sum(s["validated"] for s in conv_res)
    for s in conv_res:
        outcomes.update(s["outcomes"])
        viols += s["viol"]
    chk.add(states=cn, transitions=cv, traces_validated_against_impl=cv, evaluations=cn, distinct_nontrivial=cn)
    chk.part("conv", cases=cn, route_comparisons=cv, violations=sum(len(s["viol"]) for s in conv_res),
             values_number=len(NUM_VALUES) + len(OTHER_NUM), values_bigint=len(BIG_VALUES) + len(OTHER_BIG), type_pairs=len(M.TYPE_ORDER) ** 2)
    chk.sample({"conv_case": conv[5][0], "js": conv[5][1], "expected": conv[5][2]})
    chk.sample({"conv_case": conv[-7][0], "js": conv[-7][1][:300], "expected": conv[-7][2]})
    # confirm: replay every failing case twice in fresh contexts; observations must repeat
    confirm([v for v in viols if chk.findings.lookup(core.sha12(v["case"]), core.sha12(v["observed"])) is None])
    for v in viols:
        chk.violation(v["case"], v["observed"], v["what"], replay={"job": v["replay"], "expected": v["expected"]}, expected=v["expected"])
    chk.cov["distinct_outcomes"] = len(outcomes)
    chk.cov["rule"] = (
        "E2: per world (buffer kind x view geometry; %d typed-array worlds + %d DataView worlds) all operation histories level by level as "
        "given in parts[*].plan = [alphabet/parent-filter per level] (alphabets tiny<core<quick<full; filter all = every new model state is "
        "extended, geom = the first state of every new geometry path), merged on the model state (buffer bytes + detached flag; views are "
        "fixed per world); every history is replayed from fresh objects on the real engine and after every step the operation result and "
        "the dump of buffer bytes and of every live view are compared with the Python byte model. states = distinct model states reached "
        "(+1 per conversion case), transitions = history steps executed on the engine including the replayed prefixes (+ one per store "
        "route of the conversion table), traces_validated = step dumps compared. non-trivial = the step printed something other than "
        "`undefined` or changed the dump" % (len(ta_worlds()), len(dv_worlds())))
    chk.cov["model_cross_validated_on"] = ("node v20 (V8 11.3) at authoring time: 6759 conversion routes, 5204 DataView histories, 46744 depth-1 and "
                                           "263974 depth-2 typed-array histories; all differences are the 5 documented V8 deviations (oracle/c15_xval.md)")
    chk.cov["features_probed"] = {"Float16Array": True, "resizable ArrayBuffer": True, "growable SharedArrayBuffer": True,
                                  "ArrayBuffer.prototype.transfer": False}
    chk.assumptions += [
        "little-endian host (element byte order of typed arrays)",
        "detached state reached through the embedder API JsArrayBuffer::detach (host function __detach); transfer()/transferToFixedLength() do not exist in this boa",
        "any NaN encoding is accepted where the spec stores an implementation-defined NaN (value-level float stores); the model then adopts the engine's bytes",
        "histories of one parent state share one context (fresh buffer and views per history); a failing history is re-run alone in a fresh context before it is reported",
        "no species constructors, no subclassing, no concurrent agents (Atomics are exercised single-threaded)",
    ]


def confirm(viols):
    if not viols:
        return
    jobs = [v["replay"] for v in viols]
    for _ in range(2):
        res = core.run_jobs(jobs, binary=VC15)
        for v, r in zip(viols, res):
            steps = r.get("steps") or []
            last = steps[-1] if steps else {"lines": [], "completion": r.get("completion")}
            got = last.get("lines", [])
            comp = last.get("completion")
            if got != v["got"] or (comp != v["completion"]):
                raise core.MachineryError("c15: failing case does not reproduce alone in a fresh context: %s\n first: %s %s\n again: %s %s" % (
                    v["what"][:300], v["got"], v["completion"], got, comp))


def replay(rep):
    job = rep["replay"]["job"]
    exp = rep["replay"]["expected"]
    r = core.run_jobs([job], binary=VC15, chunk=1)[0]
    steps = r.get("steps") or []
    last = steps[-1] if steps else {"lines": [], "completion": r.get("completion")}
    got = last.get("lines", [])
    print("case:", json.dumps(rep["case"]))
    print("script:", job["hist"][1][:2000])
    print("        ", job["hist"][2][:2000])
    print("completion:", last.get("completion"))
    ok = got == exp and str(last.get("completion")).startswith("Value")
    for k in range(max(len(exp), len(got))):
        e = exp[k] if k < len(exp) else None
        g = got[k] if k < len(got) else None
        print("%s expected %s\n  observed %s" % ("  " if e == g else "!!", e, g))
    return 0 if ok else 1
