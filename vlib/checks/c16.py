"""C16 — promise jobs run in spec FIFO order; the trace does not depend on how the host schedules evaluation and draining.

Programs (E1): every composition (ordered, with repetition) of k actors out of the alphabet of `c16_prog` (31 kinds: then
chains, then on settled / pending / rejected promises, thenables incl. throwing ones, async functions awaiting values /
promises / thenables, async return of a promise, await in try/finally, the four combinators, async generators, for-await
over sync and async iterables incl. early break, a self-rescheduling job, a throwing reaction, unhandled rejections),
followed by `print("end")`.  Every callback prints a unique id.

Schedules (E3, parameter-exhaustive) — all executed by the `vc16` binary on the real engine, a fresh context each:
  (i)   `Script::evaluate` + `Context::run_jobs`;
  (ii)  `Script::evaluate_async_with_budget(b)` polled by hand with a no-op waker for EVERY budget of the tier, then the queue
        drained by `SimpleJobExecutor::run_jobs_async` polled by hand: one future to completion / a NEW future for every host
        turn / k polls and then `run_jobs` / with a forced GC in every host turn;
  (iii) the script cut at top-level statement boundaries into separately evaluated scripts with a drain at every cut
        (every subset of boundaries for n <= 5 statements), also evaluated with a budget and without drains at the cuts;
  (iv)  synchronous evaluation followed by each hand-driven drain mode; `run_jobs` once more at the end must do nothing.

Oracle: (a) every unsplit schedule of one program gives ONE trace; (b) that trace equals the committed V8 golden (spec order;
table c16-unsplit, all compositions of <= 3 actors); (c) every id that must appear appears exactly once, ids of dead callbacks
never; (d) a split schedule equals the V8 golden of the SPLIT program (node `microtaskMode: "afterEvaluate"` drains exactly
at chunk ends; table c16-split, all compositions of <= 2 actors); a split without drains equals the unsplit trace; (e) the
FIFO merge model (`c16_prog.MergeModel`: actors are independent, so generation g of the composition is the concatenation of
generation g of every actor in order; the per-actor generations are read off V8 runs of one actor next to a clock, table
c16-clock) predicts every trace; it is compared with every golden entry in the same run and is the expectation where no golden
entry is committed (4-actor compositions, splits of 3-actor compositions).  Error side: a runtime limit hit inside a job is
reported by the drain, nothing of the aborted queue runs later, the context stays usable (hand-written expectations).

Sizes: quick = all compositions of <= 2 actors (992) x the full family (36..57 schedules, all 16 budgets, all splits) +
all 29 791 compositions of 3 actors x {sync, b1, b2, b3, b16} + 6 error-side programs = 188 195 executions.  thorough = <= 2
actors x full (98..119 schedules, budgets 1..64 and 2^7..2^20) + 3 actors x mid (56..60 schedules: budgets 1..32, 64, 2^10,
2^20, every hand-driven drain, every cut set for n <= 5 else every single cut + the finest split) + all 923 521 compositions
of 4 actors x {sync, b1 restart} = 3.64 M executions.

Authoring: `python3 -m vlib.checks.c16 gen` regenerates oracle/c16-*.golden.gz with node (never needed at check time).
"""
import json, os, sys
from .. import core, golden
from .. import c16_prog as P

PACKAGES = ("vrun", "vc16")
VC16 = os.path.join(core.TARGET, "debug", "vc16")
BLOCK = 20000
MAX_REPORT = 60


# ---------------------------------------------------------------------------------------------------
# the tiers
# ---------------------------------------------------------------------------------------------------
def plan(tier):
    """list of (k, schedule family name, unsplit schedules, split parameters or None)"""
    if tier == "thorough":
        full = P.full_schedules("thorough")
        return [(1, "full", full, (5, 2, True)), (2, "full", full, (5, 2, True)),
                (3, "mid", P.full_schedules("thorough", P.MID_BUDGETS), (5, 1, False)), (4, "tiny", P.tiny_schedules(), None)]
    full = P.full_schedules("quick")
    return [(1, "full", full, (5, 2, True)), (2, "full", full, (5, 2, True)), (3, "light", P.light_schedules(), None)]


# error side: (name, cfg, statements, cut, expected steps [(lines, completion, jobs)], what)
def err_cases():
    after = 'Promise.resolve().then(()=>print("L4")); print("after");'
    ok_after = (['"after"', '"L4"'], "Value undefined", None)
    return [
        ("limit-in-reaction", {"loop": 100},
         ['Promise.resolve().then(()=>print("L1"));',
          'Promise.resolve().then(()=>{ print("L2"); for(;;){} }).then(()=>print("LX"),()=>print("LY"));',
          'Promise.resolve().then(()=>print("L3"));', 'print("end");', after], 4,
         [(['"end"', '"L1"', '"L2"'], "Value undefined", "Limit loop"), ok_after]),
        ("limit-in-thenable-job", {"loop": 100},
         ['Promise.resolve({then(r){ print("T0"); for(;;){} }}).then(()=>print("TX"),()=>print("TY"));',
          'Promise.resolve().then(()=>print("L3"));', 'print("end");', after], 3,
         [(['"end"', '"T0"'], "Value undefined", "Limit loop"), ok_after]),
        ("limit-in-async-fn-before-await-in-job", {"loop": 100},
         ['Promise.resolve().then(()=>(async()=>{ print("A0"); for(;;){} })()).then(()=>print("AX"),()=>print("AY"));',
          'Promise.resolve().then(()=>print("L3"));', 'print("end");', after], 3,
         [(['"end"', '"A0"'], "Value undefined", "Limit loop"), ok_after]),
        ("limit-in-script-with-jobs-pending", {"loop": 100},
         ['Promise.resolve().then(()=>print("P1")).then(()=>print("P2"));', 'print("s");', 'for(;;){}', after], 3,
         [(['"s"', '"P1"', '"P2"'], "Limit loop", None), ok_after]),
        ("recursion-limit-in-reaction", {"rec": 24},
         ['Promise.resolve().then(()=>print("L1"));',
          'Promise.resolve().then(()=>{ print("R1"); (function r(){ r(); })(); }).then(()=>print("RX"),()=>print("RY"));',
          'Promise.resolve().then(()=>print("L3"));', 'print("end");', after], 4,
         [(['"end"', '"L1"', '"R1"'], "Value undefined", "Limit recursion"), ok_after]),
        ("throw-in-reaction-is-not-a-drain-error", {},
         ['Promise.resolve().then(()=>{ print("E1"); throw new TypeError("t"); });',
          'Promise.reject(1);', 'Promise.resolve().then(()=>print("E2"));', 'print("end");', after], 4,
         [(['"end"', '"E1"', '"E2"'], "Value undefined", None), ok_after]),
    ]


def err_schedules(tier, cut):
    s = [{"cuts": [cut], "drain": "sync"}]
    for b in P.budgets(tier):
        s.append({"cuts": [cut], "b": b, "drain": P.DRAINS[b % len(P.DRAINS)]})
    for d in P.DRAINS[:-1]:
        s.append({"cuts": [cut], "drain": d})
    return s


# ---------------------------------------------------------------------------------------------------
# authoring
# ---------------------------------------------------------------------------------------------------
def _node(items):
    tr = golden.run_node(items)
    for _ in range(3):
        idx = [i for i, t in enumerate(tr) if "TIMEOUT" in json.dumps(t)]
        if not idx:
            break
        again = golden.run_node([items[i] for i in idx], nproc=2)
        for i, t in zip(idx, again):
            tr[i] = t
    if any("TIMEOUT" in json.dumps(t) for t in tr):
        raise core.MachineryError("node timeout while generating a golden table")
    return tr


def gen(only=None):
    # unsplit: all compositions of <= 3 actors
    if not only or "unsplit" in only:
        texts = [P.text(P.program(c)) for k in (1, 2, 3) for c in P.combos(k)]
        tr = _node([{"src": t} for t in texts])
        print(golden.write_table("c16-unsplit", texts, [[t["lines"], t["completion"]] for t in tr]), len(texts))
    if only and "split" not in only:
        return
    # split: all compositions of <= 2 actors x the cut sets of both tiers
    items = []
    for k in (1, 2):
        for c in P.combos(k):
            st = P.program(c)
            for cs in P.cut_sets(len(st), 5, 2):
                items.append(P.chunks_of(st, cs))
    tr = _node([{"hist": h} for h in items])
    print(golden.write_table("c16-split", items, [[[s["lines"], s["completion"]] for s in t["steps"]] for t in tr]), len(items))
    # clock: one actor next to a clock, every position, every internal cut pattern
    items = [P.clock_chunks(a, p, pat) for a in range(P.N) for p in range(P.MAX_POS) for pat in P.internal_patterns(a)]
    tr = _node([{"hist": h} for h in items])
    print(golden.write_table("c16-clock", items, [[[s["lines"], s["completion"]] for s in t["steps"]] for t in tr]), len(items))


# ---------------------------------------------------------------------------------------------------
# the check
# ---------------------------------------------------------------------------------------------------
def _is_split(s):
    return bool(s.get("cuts"))


def _steps(trace):
    return [(st["lines"], st["completion"], st["jobs"]) for st in trace["steps"]]


class Tables:
    def __init__(self):
        self.unsplit = golden.load_table("c16-unsplit")
        self.split = golden.load_table("c16-split")
        clock = golden.load_table("c16-clock")
        if self.unsplit is None or self.split is None or clock is None:
            raise core.MachineryError("golden tables oracle/c16-*.golden.gz missing (python3 -m vlib.checks.c16 gen)")
        try:
            self.model = P.MergeModel(clock, core.sha12)
        except (KeyError, ValueError) as e:
            raise core.MachineryError("clock table does not fit the alphabet: %s" % e)


def judge(combo, stmts, scheds, r, T, st):
    """compare every run of one program with its expectations; returns list of (sched, observed trace, expected, what)"""
    bad = []
    if "traces" not in r:
        return [(scheds[0], r, None, "harness result without traces: " + str(r.get("completion")))]
    traces, runs = r["traces"], r["runs"]
    if len(runs) != len(scheds):
        last = traces[runs[-1][0]] if runs else r
        return [(scheds[max(0, len(runs) - 1)], last, None, "engine panic: " + json.dumps(last)[:200])]
    k = len(combo)
    must, never = P.expected_ids(combo)
    must_sorted = sorted(must)
    model_unsplit = T.model.expect(combo)[0]
    key = core.sha12(P.text(stmts))
    g = T.unsplit.get(key)
    if g is None and k <= 3:
        raise core.MachineryError("enumeration drift: program not in table c16-unsplit: " + P.text(stmts)[-200:])
    if g is not None:
        st["model_vs_golden"] += 1
        if g[0] != model_unsplit or g[1] != "Value undefined":
            raise core.MachineryError("merge model disagrees with the V8 golden on " + P.text(stmts))
    exp_unsplit = [(model_unsplit, "Value undefined", None)]
    verdict = {}  # (trace index, expectation kind) -> None | what
    first = {}    # expectation kind -> trace index of the first schedule of that kind (the self-differential reference)
    for s, run in zip(scheds, runs):
        ti = run[0]
        t = traces[ti]
        st["runs"] += 1
        st["max_eval_polls"] = max(st["max_eval_polls"], run[3])
        st["max_job_polls"] = max(st["max_job_polls"], run[2])
        if s.get("b") == 1:
            st["polls_b1_min"] = min(st["polls_b1_min"], run[1])
        if not _is_split(s):
            kind = ("u",)
        elif s.get("mid") == "none":
            kind = ("n",)
        else:
            kind = ("s",) + tuple(s["cuts"])
        vk = (ti, kind)
        if vk not in verdict:
            what = None
            obs = _steps(t)
            ids = sorted(P.line_id(l) for stp in obs for l in stp[0])
            obs_lines = [stp[0] for stp in obs]
            # completion values of non-final chunks are not part of this property (only that they are values)
            shape_ok = (obs[-1][1] == "Value undefined" and all(stp[1].startswith("Value ") for stp in obs)
                        and not any(stp[2] for stp in obs))
            if any(core.is_bad(stp[1]) for stp in obs):
                what = "engine panic / abort: " + str([stp[1] for stp in obs])
            elif t["late"]:
                what = "the queue was not empty after the drain: %s" % t["late"]
            elif ids != must_sorted:
                dup = sorted(set(i for i in ids if ids.count(i) > 1))
                what = "ids printed %s (duplicates %s, missing %s, unexpected %s)" % (
                    "not exactly once", dup, sorted(set(must) - set(ids)), sorted(set(ids) - set(must)))
            elif kind in first and first[kind] != ti:
                st["cmp"] += 1
                what = "trace differs from another schedule of the same program with the same expectation"
            elif kind[0] == "u":
                st["cmp"] += 2 if g is not None else 1
                if obs != exp_unsplit:
                    what = "unsplit trace differs from the spec order (V8 golden / merge model)"
            elif kind[0] == "n":
                st["cmp"] += 1
                cat = [l for stp in obs for l in stp[0]]
                if cat != model_unsplit or not shape_ok:
                    what = "separately evaluated chunks without a drain differ from the unsplit trace"
            else:
                cuts = list(kind[1:])
                ml = T.model.expect(combo, cuts)
                gs = T.split.get(core.sha12(P.chunks_of(stmts, cuts)))
                if gs is None and k <= 2:
                    raise core.MachineryError("enumeration drift: split program not in table c16-split")
                if gs is not None:
                    st["model_vs_golden"] += 1
                    if [x[0] for x in gs] != ml or gs[-1][1] != "Value undefined":
                        raise core.MachineryError("merge model disagrees with the V8 golden on the split %s of %s" % (cuts, P.text(stmts)))
                    st["cmp"] += 1
                st["cmp"] += 1
                if obs_lines != ml or not shape_ok:
                    what = "split trace differs from the spec order of the split program (V8 golden / merge model, cuts %s)" % cuts
            verdict[vk] = what
            first.setdefault(kind, ti)
        else:
            st["cmp"] += 1  # same trace as an already judged schedule of the same expectation: the self-differential
        if verdict[vk] is not None:
            if kind[0] == "u":
                exp = exp_unsplit
            elif kind[0] == "n":
                exp = {"concatenated": model_unsplit}
            else:
                exp = T.model.expect(combo, list(kind[1:]))
            bad.append((s, t, exp, verdict[vk]))
    # all unsplit schedules gave one trace?
    us = sorted(set(run[0] for s, run in zip(scheds, runs) if not _is_split(s)))
    st["distinct_unsplit"] = max(st["distinct_unsplit"], len(us))
    return bad


def make_job(i, stmts, scheds, cfg=None):
    j = {"kind": "c16", "i": i, "stmts": stmts, "scheds": scheds}
    if cfg:
        j["cfg"] = cfg
    return j


def run(chk):
    tier = chk.tier
    T = Tables()
    st = {"runs": 0, "cmp": 0, "model_vs_golden": 0, "max_eval_polls": 0, "max_job_polls": 0, "polls_b1_min": 1 << 60,
          "distinct_unsplit": 0}
    outcomes = set()
    shapes = set()  # interleaving shapes: the sequence of actor positions of the lines of the synchronous trace
    programs = 0
    nbad = 0
    pending_bad = []
    for k, fam, unsplit, splitpar in plan(tier):
        part = {"programs": 0, "executions": 0, "schedules_per_program_min": None, "schedules_per_program_max": 0}
        runs0 = st["runs"]
        block = []

        def flush():
            nonlocal nbad
            if not block:
                return
            jobs = [make_job(i, stmts, scheds) for i, (_, stmts, scheds) in enumerate(block)]
            res = core.run_jobs(jobs, binary=VC16)
            for (combo, stmts, scheds), j, r in zip(block, jobs, res):
                if "traces" in r and r["traces"]:
                    t0 = r["traces"][0]
                    outcomes.add(core.sha12([stp["lines"] for stp in t0["steps"]]))
                    shapes.add("".join(P.line_id(l)[0] for stp in t0["steps"] for l in stp["lines"]))
                for s, t, exp, what in judge(combo, stmts, scheds, r, T, st):
                    nbad += 1
                    if len(pending_bad) < MAX_REPORT:
                        pending_bad.append((stmts, s, t, exp, what))
            block.clear()

        for combo in P.combos(k):
            stmts = P.program(combo)
            scheds = list(unsplit)
            if splitpar:
                scheds += P.split_schedules(len(stmts), *splitpar)
            block.append((combo, stmts, scheds))
            part["programs"] += 1
            n = len(scheds)
            part["schedules_per_program_max"] = max(part["schedules_per_program_max"], n)
            part["schedules_per_program_min"] = n if part["schedules_per_program_min"] is None else min(part["schedules_per_program_min"], n)
            if len(block) >= BLOCK:
                flush()
        flush()
        part["executions"] = st["runs"] - runs0
        part["schedule_family"] = fam
        programs += part["programs"]
        chk.part("compositions-of-%d" % k, **part)

    # error side
    eprog = 0
    for name, cfg, stmts, cut, expected, in err_cases():
        scheds = err_schedules(tier, cut)
        job = make_job(0, stmts, scheds, cfg)
        r = core.run_jobs([job], binary=VC16, chunk=1)[0]
        eprog += 1
        exp = [tuple(e) for e in expected]
        if "traces" not in r or len(r["runs"]) != len(scheds):
            nbad += 1
            pending_bad.append((stmts, scheds[0], r, expected, "error-side case %s: engine panic / no result" % name))
            continue
        for s, run_ in zip(scheds, r["runs"]):
            t = r["traces"][run_[0]]
            st["runs"] += 1
            st["cmp"] += 1
            if _steps(t) != exp or t["late"]:
                nbad += 1
                if len(pending_bad) < MAX_REPORT + 20:
                    pending_bad.append((stmts, dict(s, cfg=cfg), t, expected, "error-side case %s differs from its expectation" % name))
        outcomes.add(core.sha12(r["traces"][0]))
    chk.part("error-side", programs=eprog, executions=sum(len(err_schedules(tier, c[3])) for c in err_cases()))
    programs += eprog

    # confirm, then report (one violation per (program, schedule))
    def job_of(stmts, s):
        s = dict(s)
        cfg = s.pop("cfg", None)
        return make_job(0, stmts, [s], cfg)
    conf = [(job_of(stmts, s), {"traces": [t], "runs": None}) for stmts, s, t, _, _ in pending_bad if isinstance(t, dict) and "steps" in t]
    if conf:
        for _ in range(2):
            again = core.run_jobs([j for j, _ in conf], binary=VC16, chunk=1)
            for (j, r), r2 in zip(conf, again):
                if r2.get("traces") != r["traces"]:
                    raise core.MachineryError("nondeterministic replay of a failing schedule: " + json.dumps(j)[:400])
    for stmts, s, t, exp, what in pending_bad:
        chk.violation({"stmts": stmts, "sched": s}, t, "%s; schedule %s; program `%s`" % (what, json.dumps(s), P.text(stmts)[-160:]),
                      replay={"stmts": stmts, "sched": s}, expected=exp)
    if nbad > len(pending_bad):
        chk.cov["caps_hit"].append("only the first %d of %d failing (program, schedule) pairs were written as replay files" % (len(pending_bad), nbad))

    chk.add(evaluations=st["runs"], states=programs, transitions=st["runs"], traces_validated_against_impl=st["cmp"],
            distinct_nontrivial=programs)
    # every program has its own ids, so distinct traces == programs; the informative number is the number of distinct
    # interleaving shapes (sequence of actor positions, `e` = the final synchronous line)
    chk.cov["distinct_outcomes"] = len(shapes)
    chk.cov["distinct_traces"] = len(outcomes)
    chk.cov["distinct_interleaving_shapes"] = len(shapes)
    chk.cov["max_polls_of_one_evaluation"] = st["max_eval_polls"]
    chk.cov["max_polls_of_one_program_drain"] = st["max_job_polls"]
    chk.cov["min_polls_at_budget_1"] = st["polls_b1_min"]
    chk.cov["model_cross_validated_on"] = "%d V8 golden entries (unsplit and split) equal the FIFO merge model in this run" % st["model_vs_golden"]
    chk.cov["budgets"] = P.budgets(tier)
    chk.cov["alphabet"] = P.CODES
    chk.cov["failing_pairs"] = nbad
    chk.cov["rule"] = (
        "E1 x E3: every ordered composition with repetition of k actors out of %d (k per part, see parts) x the schedule family of "
        "the part. full = sync + every budget of the tier (drain mode cycling with the budget) + budgets 1,2 x every drain mode + GC "
        "per host turn + sync evaluation x every hand-driven drain mode + every cut set (all subsets of statement boundaries for "
        "n<=5 statements, else <= 2 (k<=2) / 1 (k=3) boundaries) + the finest split with budget / restart / without drains; "
        "mid = full with the budgets 1..32, 64, 2^10, 2^20 and without the finest-split variants; light = sync, b1 async, b2 restart, b3 mixed:1, b16 async; tiny = sync, b1 restart. states = distinct programs, "
        "transitions = executions (program x schedule) on the real engine in fresh contexts, traces_validated = comparisons of an "
        "observed trace with the V8 golden, with the merge model, or with an identically-expected schedule of the same program; "
        "non-trivial = every program prints >= 2 ids from jobs" % P.N)
    for combo in [(4, 11), (5, 23, 28), (8, 15, 26)][: 3]:
        stmts = P.program(combo)
        chk.sample({"actors": [P.CODES[a] for a in combo], "src": P.text(stmts), "spec_order": T.model.expect(combo)[0]})
    chk.sample({"error_side": err_cases()[0][0], "src": P.text(err_cases()[0][2]), "expected": err_cases()[0][4]})
    chk.assumptions += [
        "V8 11.3 (node 20, microtaskMode afterEvaluate) is the spec order for the constructs of the alphabet; explicit `return v` in async generators and rejecting values inside sync iterables under for-await are kept out (known V8/spec tick differences)",
        "the default SimpleJobExecutor is the executor under test; no NativeAsyncJob / timeout jobs are enqueued, so dropping a run_jobs_async future at a yield point loses nothing",
        "the host does nothing but an optional forced GC between two polls; evaluating further code between two polls of one drain is not explored",
        "the budget only changes where the top-level evaluation yields: jobs run by the executor re-enter the VM synchronously",
        "a runtime limit hit after the first await of an async function (known defect, property C08) is not part of the error-side cases",
    ]


def replay(rep):
    rp = rep["replay"]
    s = dict(rp["sched"])
    cfg = s.pop("cfg", None)
    base = {"drain": "sync"}
    if s.get("cuts") and s.get("mid") != "none":
        base = {"cuts": s["cuts"], "drain": "sync"}
    job = make_job(0, rp["stmts"], [base, s], cfg)
    r = core.run_jobs([job], binary=VC16, chunk=1)[0]
    print("program:\n" + P.text(rp["stmts"]))
    print("schedule:", json.dumps(s))
    print("expected:", json.dumps(rep.get("expected")))
    if "traces" not in r:
        print("observed:", json.dumps(r))
        return 1
    obs = r["traces"][r["runs"][-1][0]]
    print("observed:", json.dumps(_steps(obs)), "late:", obs["late"], "polls(eval, jobs):", r["runs"][-1][1:3])
    ref = r["traces"][r["runs"][0][0]]
    print("reference schedule %s:" % json.dumps(base), json.dumps(_steps(ref)))
    if s.get("mid") != "none" and ref != obs:
        print("observed differs from the reference schedule of the same program")
        return 1
    same = obs == rep.get("observed")
    print("same as recorded observation:", same)
    exp = rep.get("expected")
    if isinstance(exp, list) and exp and isinstance(exp[0], (list, tuple)) and len(exp[0]) == 3 and not isinstance(exp[0][0], str):
        ok = [list(x) for x in _steps(obs)] == [list(x) for x in exp] and not obs["late"]
    elif isinstance(exp, list):
        ok = [x[0] for x in _steps(obs)] == exp and not obs["late"]
    elif isinstance(exp, dict):
        ok = [l for x in _steps(obs) for l in x[0]] == exp["concatenated"] and not obs["late"]
    else:
        ok = False
    return 0 if ok else 1


if __name__ == "__main__":
    if sys.argv[1:2] == ["gen"]:
        gen(sys.argv[2:])
