"""C06 — inline caches are semantically transparent.

E2, stateless: EVERY operation history of a stated depth over a stated alphabet (vlib/c06_gen.py; ~65 operations on a receiver `o`,
prototypes `p`, `q`, a home object `H` for `super.a`, the global object and Object.prototype) whose last operation is an
access-site invocation (the others are prefixes of longer ones).  Each history is compiled as one block of JavaScript with a
fresh universe and TEXTUALLY FRESH access-site function literals (inline caches live in the CodeBlock of a function literal; a
closure factory would share them), so the same site sees every object the history shows it and nothing else.

Oracle: self-differential — the per-history trace (values read, getter/setter call lines, error names, final structural dump of
o, p, q, H, globalThis.a, Object.prototype.a/b plus an uncached read-back) with caches ON must equal the trace with caches OFF
(`mode` letter `I`: InlineCache::get -> None, InlineCache::set -> no-op), each side in its own fresh context; a Rust/engine
panic, abort or hang is a violation.

Execution: up to 64 blocks (240 // depth, the harness allows ~250 caught exceptions per evaluation) share one script/context per
mode — fresh context per *batch*, fresh sites and fresh objects per *history* — delimited by `#label` ... `$` lines and compared
block by block.  A block that stops the script (panic) is re-executed alone with the reference side first and the histories after
it are re-queued.  Histories named in the committed known-lists are executed alone from the start (scheduling only).  A divergence
that is not a listed known finding is re-executed alone in a fresh context (and confirmed) before it is reported.  The `fresh`
families run one history per script/context; their traces must equal the batched traces of the same histories line for line.

Families per tier: see families(); evidence parts carry alphabet, depth and counts.  Authoring tools: `python3 -m vlib.checks.c06
explore <ALPHABET> <depth> [fresh]`, vlib/c06_mklists.py; env VERIF_C06_DUMP=<file> dumps all divergences of a run,
VERIF_C06_ONLY=a,b restricts the families (evidence then says non-exhaustive), VERIF_C06_PROGRESS=1 prints round progress.
"""
import os, sys, time
from .. import core
from .. import c06_gen as G



# ------------------------------------------------------------------------------------------------
# families per tier: (name, alphabet name, alphabet, depth, fresh?)   fresh = one history per script/context
# ------------------------------------------------------------------------------------------------
def families(tier):
    f = [("full", "FULL", G.FULL, 1, False), ("full", "FULL", G.FULL, 2, False)]
    if tier == "thorough":
        f += [("full", "FULL", G.FULL, 3, False), ("mid", "MID", G.MID, 4, False), ("special", "SPECIAL4", G.SPECIAL4, 4, False),
              ("global", "GLOBAL", G.GLOBAL, 5, False), ("array", "ARRAY", G.ARRAY, 5, False), ("core_m", "CORE_M", G.CORE_M, 5, False),
              ("fresh", "FULL", G.FULL, 1, True), ("fresh", "FULL", G.FULL, 2, True), ("fresh", "CORE_S", G.CORE_S, 4, True)]
    else:
        f += [("mid", "MID", G.MID, 3, False), ("special", "SPECIAL", G.SPECIAL, 3, False), ("global", "GLOBAL", G.GLOBAL, 4, False),
              ("array", "ARRAY", G.ARRAY, 4, False), ("core_s", "CORE_S", G.CORE_S, 4, False),
              ("fresh", "FULL", G.FULL, 1, True), ("fresh", "FULL", G.FULL, 2, True)]
    return f


def fam_key(name, aname, depth):
    return "%s/%s/depth%d" % (name, aname, depth)


_OFF = {"mode": "I"}
if os.environ.get("VERIF_C06_PERTURB") == "same":      # authoring-time sensitivity experiment: both sides with caches on
    _OFF = {}


def _job(hists, swapped=False):
    return {"src": G.script(hists), "multi": [_OFF, {}] if swapped else [{}, _OFF]}


def _blocks(res):
    """Result of one mode -> ([block text without label, in label order], number of complete blocks, completion)."""
    parts = ("\n" + "\n".join(res.get("lines", []))).split("\n#")[1:]
    out = []
    complete = 0
    for p in parts:
        nl = p.find("\n")
        body = p[nl + 1:] if nl >= 0 else ""
        if body.endswith("\n"):
            body = body[:-1]
        out.append(body)
        if body.endswith("$"):
            complete += 1
    return out, complete, res.get("completion")


def trace_of_block(body, completion):
    """Canonical per-history trace: [lines, completion]; completion is `ok` for a block that ran to its `$`."""
    lines = body.split("\n") if body else []
    if lines and lines[-1] == "$":
        return [lines[:-1], "ok"]
    return [lines, completion]


class Explorer:
    def __init__(self, chk, slab_hist=160000, isolate=()):
        self.chk = chk
        self.isolate = set(isolate)   # histories executed alone from the start (scheduling only; the verdict is the same comparison)
        self.slab_hist = slab_hist
        self.n_hist = 0
        self.n_exec = 0
        self.n_cmp = 0
        self.distinct_off = set()
        self.distinct_on = set()
        self.diverge = []          # (hist, on_trace, off_trace)
        self.repeat_site = 0
        self.adjacent_repeat = 0
        self.fam = {}              # family key -> [histories, divergent]
        self.xcheck = {}           # fresh family key -> {history: (on, off)}
        self.batched = {}          # history -> (on, off) of the batched execution, for histories that also run fresh
        self.want = set()
        self.retries = {}
        self.t0 = time.time()
        self.hist_seen = set()
        self.rounds = 0
        self.worker_restarts = 0

    def run(self, fams):
        """fams: list of (key, iterator of histories, depth, fresh).  Everything is executed; batches never mix families."""
        jobs = []
        nh = 0
        fams = [(key, list(it) if fresh else it, depth, fresh) for key, it, depth, fresh in fams]
        for key, it, depth, fresh in fams:
            if fresh:
                self.want.update(it)
        for key, it, depth, fresh in fams:
            self.fam.setdefault(key, [0, 0])
            # <= 240 caught exceptions per evaluation (harness driver constraint: every caught exception leaks value-stack slots)
            bsz = 1 if fresh else max(8, min(64, 240 // depth))
            if fresh:
                self.xcheck[key] = {}
            pend = []
            for h in it:
                if h in self.isolate and not fresh:
                    jobs.append((key, [h], True))
                    nh += 8
                    continue
                pend.append(h)
                if len(pend) == bsz:
                    jobs.append((key, pend, False))
                    nh += bsz * (8 if fresh else 1)
                    pend = []
                    if nh >= self.slab_hist:
                        self._slab(jobs)
                        jobs = []
                        nh = 0
            if pend:
                jobs.append((key, pend, False))
                nh += len(pend)
        if jobs:
            self._slab(jobs)

    def _slab(self, batches):
        while batches:
            self.rounds += 1
            chunk = max(1, (len(batches) + 2 * core.NPROC - 1) // (2 * core.NPROC))   # a worker process costs ~0.3 s to start
            res = core.run_jobs([_job(b, sw) for _, b, sw in batches], chunk=chunk)
            requeue = []
            if os.environ.get("VERIF_C06_PROGRESS"):
                sys.stderr.write("[c06] round %d: %d jobs, %d histories done, %d divergent, %.0fs\n" % (
                    self.rounds, len(batches), self.n_hist, len(self.diverge), time.time() - self.t0))
            for (key, b, sw), r in zip(batches, res):
                if "multi" not in r:
                    # the worker died by a signal or the 20 s wall cap of a job was hit (machine load): no per-mode results.
                    # Split and retry; a history that does this alone three times is reported with that completion.
                    self._cur = self.fam[key]
                    self._key = key
                    if len(b) > 1:
                        requeue += [(key, b[:len(b) // 2], False), (key, b[len(b) // 2:], False)]
                    else:
                        self.retries[b[0]] = self.retries.get(b[0], 0) + 1
                        if self.retries[b[0]] < 3:
                            requeue.append((key, b, True))
                        else:
                            self._bad_reference(b[0], "", str(r.get("completion")))
                    continue
                on, off = r["multi"][::-1] if sw else r["multi"]
                bon, con, ccon = _blocks(on)
                boff, coff, ccoff = _blocks(off)
                self._cur = self.fam[key]
                self._key = key
                if str(ccoff).startswith("Limit") or str(ccon).startswith("Limit") or ccon == "Hang" or ccoff == "Hang":
                    # driver constraint (value-stack leak per caught exception) or machine load, not a verdict: split and retry
                    if len(b) > 1:
                        requeue += [(key, b[:len(b) // 2], False), (key, b[len(b) // 2:], False)]
                        continue
                on_ok = con == len(b) and str(ccon).startswith("Value")
                off_ok = coff == len(b) and str(ccoff).startswith("Value")
                if on_ok and off_ok:
                    self._account(b, bon, boff, ccon, ccoff)
                    continue
                self.worker_restarts += 1
                if len(b) == 1 and (sw or on_ok):
                    # final: a history alone, reference side executed first in a clean process (or the only failing side)
                    if off_ok:
                        self._account(b, bon, boff, ccon, ccoff)
                    else:
                        self._bad_reference(b[0], boff[0] if boff else "", ccoff)
                    continue
                # some block stopped the script (panic): blocks before it are compared as they are, the stopping history is
                # re-executed alone with the reference side first, the histories after it are re-queued
                k = min(con if not on_ok else len(b), coff if not off_ok else len(b), len(b) - 1)
                self._account(b[:k], bon, boff, ccon, ccoff)
                requeue.append((key, [b[k]], True))
                if b[k + 1:]:
                    requeue.append((key, b[k + 1:], False))
            batches = requeue

    def _account(self, hists, bon, boff, ccon, ccoff):
        for i, h in enumerate(hists):
            t_on = bon[i] if i < len(bon) else ""
            t_off = boff[i] if i < len(boff) else ""
            self.n_hist += 1
            self.n_exec += 2
            self.n_cmp += 1
            self._cur[0] += 1
            self.hist_seen.add(hash(h))
            self.distinct_off.add(t_off)
            self.distinct_on.add(t_on)
            sites = [x for x in h if G.OPS[x][0] == "site"]
            fn = [G.OPS[x][2] for x in sites]
            if len(set(fn)) < len(fn) or "tg_o" in h or "pic3" in h or "pic4" in h:
                self.repeat_site += 1
            if any(h[j] == h[j + 1] and G.OPS[h[j]][0] == "site" for j in range(len(h) - 1)):
                self.adjacent_repeat += 1
            if self._key in self.xcheck:
                self.xcheck[self._key][h] = (t_on, t_off)
            elif h in self.want:
                self.batched[h] = (t_on, t_off)
            if t_on != t_off:
                self._cur[1] += 1
                self.diverge.append((h, trace_of_block(t_on, ccon), trace_of_block(t_off, ccoff)))

    def _bad_reference(self, h, body, completion):
        self.n_hist += 1
        self.n_exec += 2
        self._cur[0] += 1
        self._cur[1] += 1
        self.hist_seen.add(hash(h))
        if self._key in self.xcheck:
            self.xcheck[self._key][h] = ("<bad>", body)
        self.diverge.append((h, [["<the caches-off side did not complete>"], "n/a"], trace_of_block(body, completion)))


def single_job(hist):
    return {"i": 0, "src": G.script([tuple(hist)]), "multi": [{}, {"mode": "I"}]}


def single_traces(r):
    out = []
    for m in r["multi"]:
        b, c, cc = _blocks(m)
        out.append(trace_of_block(b[0] if b else "", cc))
    return out


def what_of(h, on, off):
    el, ol = off[0] + [off[1]], on[0] + [on[1]]
    i = 0
    while i < min(len(el), len(ol)) and el[i] == ol[i]:
        i += 1
    return "history [%s]: caches on gives %r where caches off gives %r (line %d)" % (
        "; ".join(h), (ol[i:i + 1] or ["<end>"])[0], (el[i:i + 1] or ["<end>"])[0], i)


def report(chk, ex):
    """Turn divergences into known findings / confirmed violations."""
    new = []
    seen = set()
    for h, on, off in ex.diverge:
        case = {"hist": list(h)}
        k = (h, core.sha12(on))
        if k in seen:
            continue
        seen.add(k)
        if chk.findings.lookup(core.sha12(case), core.sha12(on)) is not None:
            chk.violation(case, on, what_of(h, on, off), replay=single_job(h), expected=off)
        else:
            new.append((h, on, off))
    # batched execution and fresh-context execution of the same history must agree line for line
    for key, d in sorted(ex.xcheck.items()):
        for h in sorted(d):
            if h in ex.batched and ex.batched[h] != d[h]:
                chk.violation({"hist": list(h), "batch_vs_fresh": True}, [ex.batched[h][0], d[h][0]],
                              "history [%s] behaves differently inside a batch and alone in a fresh context" % "; ".join(h),
                              replay=single_job(h), expected=d[h][1])
    if not new:
        return
    # re-execute every new one alone in a fresh context; confirm determinism
    cap = 2000
    if len(new) > cap:
        chk.cov["caps_hit"].append("only the first %d of %d new divergences were re-executed alone before being reported" % (cap, len(new)))
    jobs = [single_job(h) for h, _, _ in new[:cap]]
    res = core.run_jobs(jobs, chunk=max(1, len(jobs) // (2 * core.NPROC)))
    core.confirm(list(zip(jobs, res))[:20])
    for (h, on, off), j, r in zip(new, jobs, res):
        s_on, s_off = single_traces(r)
        case = {"hist": list(h)}
        if s_on != s_off:
            chk.violation(case, s_on, what_of(h, s_on, s_off), replay=j, expected=s_off)
        else:
            chk.violation({"hist": list(h), "only_in_batch": True}, on,
                          "ONLY INSIDE A BATCH (not alone in a fresh context): " + what_of(h, on, off), replay=j, expected=off)
    for h, on, off in new[cap:]:
        chk.violation({"hist": list(h)}, on, what_of(h, on, off), replay=single_job(h), expected=off)


def known_histories(tier):
    """Histories named in the committed known-lists (third field `[op; op; ...]`).  Used for scheduling only: they are executed
    alone, reference side first, so that a panicking history does not stop a batch."""
    import glob
    out = set()
    for f in sorted(glob.glob(os.path.join(core.ROOT, "findings", "C06-*.list"))):
        if f.endswith(".thorough.list") and tier != "thorough":
            continue
        for l in open(f):
            a, b = l.find("["), l.find("]")
            if a >= 0 and b > a:
                h = tuple(x.strip() for x in l[a + 1:b].split(";"))
                if all(x in G.OPS for x in h):
                    out.add(h)
    return out


def load_tier_lists(chk):
    """`known-list-thorough:` lines of findings/C06.known (same format as `known-list:`), read by the thorough tier only."""
    path = os.path.join(core.ROOT, "findings", "C06.known")
    if chk.tier != "thorough" or not os.path.exists(path):
        return 0
    n = 0
    for line in open(path):
        line = line.strip()
        if not line.startswith("known-list-thorough:"):
            continue
        kv = core._kv(line[len("known-list-thorough:"):])
        if kv.get("property") != "C06":
            continue
        text = 'class="%s"' % kv.get("class", "")
        for l in open(os.path.join(core.ROOT, kv["file"])):
            p = l.split(None, 2)
            if len(p) >= 2:
                chk.findings.known[(p[0], p[1])] = text
                n += 1
    return n


def run(chk):
    tier = chk.tier
    load_tier_lists(chk)
    ex = Explorer(chk, isolate=known_histories(tier))
    fams = families(tier)
    only = os.environ.get("VERIF_C06_ONLY")       # authoring-time: run a subset of the families (evidence is then marked non-exhaustive)
    if only:
        fams = [f for f in fams if f[0] in only.split(",")]
        chk.cov["caps_hit"].append("VERIF_C06_ONLY=%s: only these families were run" % only)
        chk.cov["exhaustive"] = False
    t = time.time()
    ex.run([(fam_key(name, aname, depth), G.histories(alpha, depth), depth, fresh) for name, aname, alpha, depth, fresh in fams])
    chk.cov["explore_wall_s"] = round(time.time() - t, 1)
    per_depth = {}
    distinct_hist = 0
    for name, aname, alpha, depth, fresh in fams:
        key = fam_key(name, aname, depth)
        n, dv = ex.fam[key]
        if n != G.count(alpha, depth):
            raise core.MachineryError("family %s: executed %d of %d histories" % (key, n, G.count(alpha, depth)))
        chk.part(key, alphabet=aname, ops=len(alpha), sites=sum(1 for x in alpha if G.OPS[x][0] == "site"), depth=depth,
                 histories=n, divergent=dv, context="one per history" if fresh else "one per batch of <= %d histories" % max(8, min(64, 240 // depth)))
        per_depth[depth] = per_depth.get(depth, 0) + n
    dump = os.environ.get("VERIF_C06_DUMP")
    if dump:
        import json
        json.dump([[list(h), on, off] for h, on, off in ex.diverge], open(dump, "w"))
    report(chk, ex)
    # families overlap (a smaller alphabet at a greater depth re-executes nothing of a larger one at a smaller depth, but
    # e.g. GLOBAL depth 4 and MID depth 4 share histories): states counts distinct histories
    chk.add(evaluations=ex.n_exec, states=len(ex.hist_seen), transitions=ex.n_exec, traces_validated_against_impl=ex.n_cmp,
            distinct_nontrivial=len(ex.distinct_off))
    chk.cov["executed_histories"] = ex.n_hist
    chk.cov["distinct_outcomes"] = len(ex.distinct_off)
    chk.cov["distinct_traces_caches_on"] = len(ex.distinct_on)
    chk.cov["per_depth_histories"] = {str(k): v for k, v in sorted(per_depth.items())}
    chk.cov["divergent_histories"] = len(set(h for h, _, _ in ex.diverge))
    chk.cov["cache_hits"] = {
        "observable": False,
        "note": "the engine exposes no hit counter and a correct hit is by definition invisible; lower bound = divergent histories "
                "(only a hit can make the two runs differ), upper bound = histories that execute some site function literal at "
                "least twice (a site that runs once cannot hit its own fresh cache)",
        "lower_bound_divergent": len(set(h for h, _, _ in ex.diverge)), "upper_bound_site_executed_twice": ex.repeat_site,
        "adjacent_same_invocation_repeated": ex.adjacent_repeat}
    chk.cov["rounds"] = ex.rounds
    chk.cov["worker_restarts_after_panic"] = ex.worker_restarts
    chk.cov["batch_vs_fresh_compared"] = len(ex.batched)
    chk.cov["rule"] = (
        "E2 stateless: all histories over the named alphabets at the stated depths whose last operation is a site invocation "
        "(see parts); states = distinct histories, transitions = executions (history x {caches on, caches off}), validated = on/off "
        "comparisons of per-history traces; up to 64 histories share one context per mode but every history has textually fresh "
        "site function literals (own CodeBlocks, own inline caches) and fresh objects; `fresh` families run one history per context "
        "and must agree with the batched run; distinct_outcomes = distinct caches-off traces")
    chk.cov["alphabets"] = {"FULL": G.FULL, "MID": G.MID, "SPECIAL": G.SPECIAL, "SPECIAL4": G.SPECIAL4, "GLOBAL": G.GLOBAL, "ARRAY": G.ARRAY, "CORE_M": G.CORE_M, "CORE_S": G.CORE_S}
    for h in [("p.a=", "get_o", "del_p.a", "get_o"), ("p.a=", "get_o", "g_p", "get_o"), ("OP.a=", "gr", "G.a=", "gr")]:
        chk.sample({"hist": list(h), "src": G.script([h])[len(G.PROLOGUE):]})
    for h, on, off in ex.diverge[:3]:
        chk.sample({"hist": list(h), "caches_on": on, "caches_off": off})
    chk.assumptions += [
        "caches-off (InlineCache::get -> None, set -> no-op) is the reference semantics",
        "histories of one batch do not influence each other except through engine state that is not an inline cache of a site "
        "(shape tree, global object and Object.prototype restored by `clean`); checked by the `fresh` families on their histories",
        "histories outside the alphabets / beyond the depths are not decided; keyed accesses o[k], `in`, hasOwnProperty, "
        "global assignment and typeof are not cached by this engine and only appear as mutations",
        "whether a cache was hit is not observable through the hooks; only its consequences are",
    ]


def replay(rep):
    job = rep["replay"]
    r = core.run_jobs([job], chunk=1)[0]
    on, off = single_traces(r)
    print("case:", rep["case"])
    print("expected (caches off):", off)
    print("observed (caches on): ", on)
    return 0 if on == off else 1


# ------------------------------------------------------------------------------------------------
# authoring-time tools:  python3 -m vlib.checks.c06 explore <alphabet> <depth> [fresh]
# ------------------------------------------------------------------------------------------------
def _main(argv):
    import json
    if argv[0] == "explore":
        alpha = getattr(G, argv[1])
        depth = int(argv[2])
        fresh = len(argv) > 3 and argv[3] == "fresh"
        chk = core.Check("C06", "quick")
        ex = Explorer(chk)
        t = time.time()
        ex.run([("x", G.histories(alpha, depth), depth, fresh)])
        print("histories", ex.n_hist, "wall %.1f" % (time.time() - t), "divergent", len(ex.diverge), "distinct off", len(ex.distinct_off),
              "repeat", ex.repeat_site, "rounds", ex.rounds, "restarts", ex.worker_restarts)
        ex.diverge.sort(key=lambda d: (len(d[0]), d[0]))
        out = os.path.join(core.OUT, "c06", "div-%s-%d%s.json" % (argv[1], depth, "-fresh" if fresh else ""))
        os.makedirs(os.path.dirname(out), exist_ok=True)
        json.dump([[list(h), on, off] for h, on, off in ex.diverge], open(out, "w"))
        for h, on, off in ex.diverge[:40]:
            print(what_of(h, on, off))
        print("written", out)


if __name__ == "__main__":
    _main(sys.argv[1:])
