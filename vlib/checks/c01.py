"""C01 — core-language evaluation agrees with ECMAScript.

E1: every program of the families below (bounded-exhaustive alphabets, see vlib/families.py) is executed on the real
engine in a fresh context; oracle (a) the committed V8-derived golden table (+ override list), oracle (b) entry-mode
differential: the same text as UTF-16 input, via hand-polled evaluate_async_with_budget(1), and wrapped in
`function __main(){..}` called from the host must give the golden trace too.

Authoring: `python3 -m vlib.checks.c01 gen` regenerates oracle/c01-*.golden.gz with node (never needed at check time).
"""
import sys
from .. import core, golden
from .. import families as F


def _iclose():
    from .c02 import iterclose_programs
    return iterclose_programs()


def family_list(tier):
    t = tier == "thorough"
    fams = [
        ("op", F.op_family(tier)),
        ("ctl", F.ctl_family(5 if t else 4, ("fn",))),
        ("ctlgen", F.ctl_family(4 if t else 3, ("gen", "gen-throw", "async"))),
        ("scope", F.scope_family(tier)),
        ("destr", F.destr_family(tier)),
        ("class", F.class_family(tier)),
        ("gen", F.gen_family(tier)),
        ("pair", F.pair_family(tier)),
        ("completion", F.completion_family(tier)),
        ("capt", F.capt_family(tier)),
        ("iclose", _iclose()),
    ]
    import os
    only = os.environ.get("VERIF_FAMILIES")
    if only:
        fams = [f for f in fams if f[0] in only.split(",")]
    return fams


def entry_subset(name, progs, tier):
    """Programs that additionally run through the other entry modes (chosen by text hash, so the choice is
    stable when a family is edited)."""
    q = tier == "quick"
    k = {"ctlgen": 3 if q else 1, "gen": 3 if q else 1, "destr": 3 if q else 1, "ctl": 7 if q else 16,
         "pair": 7 if q else 2, "completion": 5 if q else 2, "scope": 7 if q else 2, "class": 7 if q else 2, "op": 23 if q else 5, "capt": 5 if q else 2, "iclose": 3 if q else 1}[name]
    if name == "ctl" and not q:
        return [p for p in progs if int(core.sha12(p), 16) % 48 < 3]
    return [p for p in progs if int(core.sha12(p), 16) % (k * 6) < 6] if k > 1 else list(progs)


def main_wrap(p):
    return "function __main() { " + p + "\n}"


def main_golden_src(p):
    return main_wrap(p) + "\n;__main()"


def node_traces(progs):
    traces = golden.run_node([{"src": p} for p in progs])
    for _ in range(3):  # a loaded machine can make V8 hit the per-script timeout: retry those alone
        idx = [i for i, t in enumerate(traces) if t["completion"] == "TIMEOUT"]
        if not idx:
            break
        again = golden.run_node([{"src": progs[i]} for i in idx], nproc=2)
        for i, t in zip(idx, again):
            traces[i] = t
    bad = [p for p, t in zip(progs, traces) if t["completion"] == "TIMEOUT"]
    if bad:
        print("TIMEOUT in node for", len(bad), "programs e.g.", bad[0][-300:])
    return [[t["lines"], t["completion"]] for t in traces]


def gen(only=None):
    """(authoring) regenerate the golden tables from V8 for the union of both tiers."""
    for (name, pq), (_, pt) in zip(family_list("quick"), family_list("thorough")):
        if only and name not in only:
            continue
        progs = list(dict.fromkeys(pq + pt))
        path = golden.write_table("c01-" + name, progs, node_traces(progs))
        es = list(dict.fromkeys(entry_subset(name, pq, "quick") + entry_subset(name, pt, "thorough")))
        ms = [main_golden_src(p) for p in es]
        golden.write_table("c01-" + name + "-main", ms, node_traces(ms))
        print(name, len(progs), "programs,", len(es), "main-entry programs ->", path)


def fix_timeouts():
    """(authoring) re-run only the table entries that recorded a V8 timeout."""
    for (name, pq), (_, pt) in zip(family_list("quick"), family_list("thorough")):
        progs = list(dict.fromkeys(pq + pt))
        es = list(dict.fromkeys(entry_subset(name, pq, "quick") + entry_subset(name, pt, "thorough")))
        for tname, plist in (("c01-" + name, progs), ("c01-" + name + "-main", [main_golden_src(p) for p in es])):
            tab = golden.load_table(tname)
            todo = [p for p in plist if tab.get(core.sha12(p), [None, "TIMEOUT"])[1] == "TIMEOUT"]
            if not todo:
                continue
            for p, t in zip(todo, node_traces(todo)):
                tab[core.sha12(p)] = t
            golden.write_table(tname, plist, [tab[core.sha12(p)] for p in plist])
            print(tname, "re-ran", len(todo))


def run(chk):
    tier = chk.tier
    over = golden.load_overrides()
    outcomes = set()
    total_states = 0
    total_exec = 0
    nontrivial = 0
    bad = []
    for name, progs in family_list(tier):
        tab = golden.load_table("c01-" + name)
        tabm = golden.load_table("c01-" + name + "-main")
        if tab is None or tabm is None:
            raise core.MachineryError(f"golden table for family {name} missing")
        es = set(entry_subset(name, progs, tier))
        jobs = []
        for i, p in enumerate(progs):
            if p in es:
                jobs.append({"i": i, "src": p, "multi": [{}, {"entry": "utf16"}, {"entry": "async:1"}]})
            else:
                jobs.append({"i": i, "src": p})
        esl = [p for p in progs if p in es]
        mjobs = [{"i": i, "src": main_wrap(p), "cfg": {"entry": "main"}} for i, p in enumerate(esl)]
        res = core.run_jobs(jobs + mjobs)
        res_main = res[len(jobs):]
        res = res[:len(jobs)]
        fam_bad = 0
        fam_out = set()
        for p, j, r in zip(progs, jobs, res):
            h = core.sha12(p)
            exp = over[h]["trace"] if h in over else tab.get(h)
            if exp is None:
                raise core.MachineryError(f"enumeration drift: program of family {name} not in golden table: {p[-200:]}")
            if exp[1] == "TIMEOUT":
                raise core.MachineryError("golden table contains a timeout: " + p[-200:])
            rs = r["multi"] if "multi" in r else [r]
            labels = ["script", "utf16", "async:1"]
            for lab, m in zip(labels, rs):
                t = core.trace_of(m)
                total_exec += 1
                if lab == "script":
                    fam_out.add(core.sha12(t))
                    if t[0] or not str(t[1]).startswith("Value undefined"):
                        nontrivial += 1
                if t != exp:
                    fam_bad += 1
                    bad.append((j, r, name, lab, p, exp, t))
        for p, j, r in zip(esl, mjobs, res_main):
            g = main_golden_src(p)
            h = core.sha12(g)
            exp = over[h]["trace"] if h in over else tabm.get(h)
            if exp is None:
                raise core.MachineryError(f"enumeration drift: main-entry program of family {name} not in golden table")
            if exp[1] == "TIMEOUT":
                raise core.MachineryError("golden table contains a timeout: " + g[-200:])
            t = core.trace_of(r)
            total_exec += 1
            if t != exp:
                fam_bad += 1
                bad.append((j, r, name, "main", j["src"], exp, t))
        total_states += len(progs)
        outcomes |= fam_out
        chk.part(name, programs=len(progs), entry_mode_programs=len(esl), disagreements=fam_bad, distinct_outcomes=len(fam_out))
        for p in progs[:: max(1, len(progs) // 2)][:2]:
            chk.sample({"family": name, "src": p})
    # one confirmation pass over (a capped number of) failing jobs
    core.confirm([(j, r) for j, r, *_ in bad[:300]])
    for j, r, name, lab, p, exp, t in bad:
        chk.violation({"src": p, "entry": lab}, t, f"[{name}/{lab}] `{p[-140:]}` expected {str(exp)[:120]} observed {str(t)[:120]}",
                      replay={"src": j["src"], "cfg": {} if lab == "script" else {"entry": lab if lab != "main" else "main"}}, expected=exp)
    chk.add(evaluations=total_exec, states=total_states, transitions=total_exec, traces_validated_against_impl=total_exec,
            distinct_nontrivial=nontrivial)
    chk.cov["distinct_outcomes"] = len(outcomes)
    chk.cov["rule"] = ("E1: complete enumeration of the program families op/ctl/ctlgen/scope/destr/class/gen/pair/completion at this tier's bounds; states = "
                       "distinct program texts; transitions = executions on the real engine (fresh context each; entry modes script, utf16 "
                       "source, hand-polled async with budget 1, host call of __main for the entry subset); each compared with the committed "
                       "V8-derived golden trace; non-trivial = printed a line or completed with something other than undefined")
    chk.assumptions += ["V8 11.3 (node 20) is the executable stand-in for the specification on these families; deviations are listed in oracle/overrides.jsonl with the spec clause",
                        "programs outside the enumerated families are not decided"]


def replay(rep):
    r = core.run_jobs([rep["replay"]], chunk=1)[0]
    t = core.trace_of(r)
    print("program:", rep["replay"]["src"])
    print("expected:", rep["expected"])
    print("observed:", t)
    return 0 if t == rep["expected"] else 1


if __name__ == "__main__":
    if sys.argv[1:2] == ["gen"]:
        gen(sys.argv[2:])
    if sys.argv[1:2] == ["fix-timeouts"]:
        fix_timeouts()
