"""C16 helper: the actor alphabet, program / split / schedule enumeration and the FIFO merge model.

A *program* is a list of top-level statements: the statements of k actors (each actor is written for its
position p = 0..k-1, so all identifiers and printed ids are unique) followed by `print("end");`.
Every callback of every actor prints a unique id as its first argument (`print("<p><code><n>", ...)`),
so a line's id is its first token without the quotes.
"""
import itertools

# ---------------------------------------------------------------------------------------------------
# actors: (code, [statement templates], ids that must be printed exactly once, ids that must never be printed)
# `@` is replaced by the position digit.
# ---------------------------------------------------------------------------------------------------
_ACTORS = [
    # Promise.resolve(v).then(f) chains of length 1..3
    ("aa", ['Promise.resolve(1).then(v=>print("@aa1",v));'], ["aa1"], []),
    ("ab", ['Promise.resolve(1).then(()=>print("@ab1")).then(()=>print("@ab2"));'], ["ab1", "ab2"], []),
    ("ac", ['Promise.resolve(1).then(()=>print("@ac1")).then(()=>print("@ac2")).then(()=>print("@ac3"));'],
     ["ac1", "ac2", "ac3"], []),
    # then / catch / finally on an already rejected promise
    ("rj", ['Promise.reject(7).then(()=>print("@rjX"),e=>print("@rj1",e)).finally(()=>print("@rj2")).then(()=>print("@rj3"));'
            ], ["rj1", "rj2", "rj3"], ["rjX"]),
    # then on an already settled promise, from the top level and from inside a reaction (3 statements)
    ("st", ['var s@ = Promise.resolve(5);',
            's@.then(v=>{ print("@st1",v); s@.then(()=>print("@st3")); });',
            's@.then(()=>print("@st2"));'], ["st1", "st2", "st3"], []),
    # then on a pending promise, resolved later (3 statements)
    ("pd", ['var r@, q@ = new Promise(r=>{ r@ = r; });',
            'q@.then(v=>print("@pd1",v));',
            'r@(6), q@.then(()=>print("@pd2"));'], ["pd1", "pd2"], []),
    # resolving with a native promise (NewPromiseResolveThenableJob)
    ("rp", ['new Promise(r=>{ print("@rp0"); r(Promise.resolve(1)); }).then(v=>print("@rp1",v));'], ["rp0", "rp1"], []),
    # thenable object; thenable whose then throws (before / after resolving); throwing `then` getter
    ("th", ['Promise.resolve({then(r){ print("@th0"); r(1); }}).then(v=>print("@th1",v));'], ["th0", "th1"], []),
    ("tt", ['Promise.resolve({then(r){ print("@tt0"); throw 3; }}).then(()=>print("@ttX"),e=>print("@tt1",e));'],
     ["tt0", "tt1"], ["ttX"]),
    ("tu", ['Promise.resolve({then(r){ r(4); print("@tu0"); throw 3; }}).then(v=>print("@tu1",v),()=>print("@tuX"));'],
     ["tu0", "tu1"], ["tuX"]),
    ("tg", ['new Promise(r=>r({get then(){ print("@tg0"); throw 9; }})).then(()=>print("@tgX"),e=>print("@tg1",e));'],
     ["tg0", "tg1"], ["tgX"]),
    # async functions: k awaits of a value / a native promise / a thenable / mixed
    ("av", ['(async()=>{ print("@av0"); await 0; print("@av1"); await 0; print("@av2"); })();'], ["av0", "av1", "av2"], []),
    ("ap", ['(async()=>{ await Promise.resolve(1); print("@ap1"); await Promise.resolve(2); print("@ap2"); })();'],
     ["ap1", "ap2"], []),
    ("at", ['(async()=>{ await {then(r){ print("@at0"); r(1); }}; print("@at1"); })().then(()=>print("@at2"));'],
     ["at0", "at1", "at2"], []),
    ("am", ['(async()=>{ await 0; print("@am1"); await Promise.resolve(); print("@am2"); await {then(r){ r(1); }}; print("@am3"); })();'],
     ["am1", "am2", "am3"], []),
    # async function returning a promise; await in try/finally; return through finally; throw after await
    ("ar", ['(async()=>{ print("@ar0"); return Promise.resolve(1); })().then(v=>print("@ar1",v));'], ["ar0", "ar1"], []),
    ("af", ['(async()=>{ try { await Promise.reject(1); print("@afX"); } catch (e) { print("@af1",e); } finally { await 0; print("@af2"); } print("@af3"); })();'],
     ["af1", "af2", "af3"], ["afX"]),
    ("ag", ['(async()=>{ try { await 0; print("@ag1"); return 1; } finally { await 0; print("@ag2"); } })().then(v=>print("@ag3",v));'],
     ["ag1", "ag2", "ag3"], []),
    ("ax", ['(async()=>{ await null; throw 1; })().then(()=>print("@axX"),e=>print("@ax1",e));'], ["ax1"], ["axX"]),
    # combinators over two inputs (a fulfilling and a rejecting use each)
    ("ca", ['Promise.all([Promise.resolve(1), 2]).then(v=>print("@ca1",v)), Promise.all([Promise.reject(1), Promise.resolve(2)]).then(()=>print("@caX"),e=>print("@ca2",e));'],
     ["ca1", "ca2"], ["caX"]),
    ("cs", ['Promise.allSettled([Promise.reject(1), 2]).then(v=>print("@cs1",v));'], ["cs1"], []),
    ("cr", ['Promise.race([new Promise(r=>0), Promise.resolve(1)]).then(v=>print("@cr1",v)), Promise.race([Promise.reject(3), Promise.resolve(1)]).then(()=>print("@crX"),e=>print("@cr2",e));'],
     ["cr1", "cr2"], ["crX"]),
    ("cy", ['Promise.any([Promise.reject(1), Promise.resolve(2)]).then(v=>print("@cy1",v)), Promise.any([Promise.reject(1), Promise.reject(2)]).then(()=>print("@cyX"),e=>print("@cy2",e.errors));'],
     ["cy1", "cy2"], ["cyX"]),
    # async generator with yield / yield await, three queued requests
    ("gy", ['(g=>{ g.next().then(v=>print("@gy3",v)); g.next().then(v=>print("@gy4",v)); g.next().then(v=>print("@gy5",v)); })'
            '((async function*(){ print("@gy0"); yield 1; print("@gy1"); yield await 2; print("@gy2"); })());'],
     ["gy0", "gy1", "gy2", "gy3", "gy4", "gy5"], []),
    # async generator request queue: requests made while an earlier return / throw request is still being settled
    # (fresh generator, completed generator with a pending promise as return value, generator suspended at a yield inside try/finally)
    ("gr", ['(g=>{ g.return("a").then(v=>print("@gr1",v.value,v.done)); g.next().then(v=>print("@gr2",v.value,v.done)); })'
            '((async function*(){ print("@grX"); yield 1; })());'],
     ["gr1", "gr2"], ["grX"]),
    ("gc", ['(g=>{ g.next().then(v=>{ print("@gc1",v.done); g.return(new Promise(r=>Promise.resolve().then(()=>r("b")))).then(v=>print("@gc2",v.value,v.done)); '
            'g.next().then(v=>print("@gc3",v.done)); }); })((async function*(){ print("@gc0"); })());'],
     ["gc0", "gc1", "gc2", "gc3"], []),
    ("gt", ['(g=>{ g.throw("e").then(()=>print("@gtX"),e=>print("@gt1",e)); g.next().then(v=>print("@gt2",v.done)); })'
            '((async function*(){ print("@gtY"); yield 1; })());'],
     ["gt1", "gt2"], ["gtX", "gtY"]),
    ("gq", ['(g=>{ g.next().then(v=>print("@gq1",v.value)); g.return("r").then(v=>print("@gq2",v.value,v.done)); g.next().then(v=>print("@gq3",v.done)); })'
            '((async function*(){ try { yield 1; print("@gqX"); } finally { print("@gq0"); } })());'],
     ["gq0", "gq1", "gq2", "gq3"], ["gqX"]),
    # for await over a sync iterable / an async iterable / closed early by break (async and sync iterator)
    ("fs", ['(async()=>{ for await (const x of [Promise.resolve(1), 2]) print("@fs"+x); print("@fs9"); })();'],
     ["fs1", "fs2", "fs9"], []),
    ("fa", ['(async()=>{ for await (const x of (async function*(){ yield 1; print("@fa0"); yield await 2; })()) print("@fa"+x); print("@fa9"); })();'],
     ["fa0", "fa1", "fa2", "fa9"], []),
    ("fb", ['(async()=>{ const g = (async function*(){ try { yield 1; yield 2; } finally { print("@fb0"); } })(); for await (const x of g) { print("@fb"+x); break; } print("@fb9"); })();'],
     ["fb0", "fb1", "fb9"], ["fb2"]),
    ("fc", ['(async()=>{ const it = {[Symbol.iterator](){ return {i:0, next(){ return {value: ++this.i, done: false}; }, return(){ print("@fc0"); return {}; }}; }}; '
            'for await (const x of it) { print("@fc"+x); if (x == 2) break; } print("@fc9"); })();'],
     ["fc0", "fc1", "fc2", "fc9"], ["fc3"]),
    # queueMicrotask-style self-rescheduling job (bounded)
    ("qm", ['(function f(n){ print("@qm"+n); if (n < 3) Promise.resolve().then(()=>f(n+1)); })(0);'],
     ["qm0", "qm1", "qm2", "qm3"], ["qm4"]),
    # error side: a reaction throws (only its derived promise is rejected); unhandled rejections (no crash, nothing else)
    ("ex", ['Promise.resolve().then(()=>{ print("@ex1"); throw new Error("x"); }).then(()=>print("@exX"),e=>print("@ex2",e.message));'],
     ["ex1", "ex2"], ["exX"]),
    ("eu", ['Promise.reject(new Error("u")), Promise.resolve().then(()=>{ print("@eu1"); throw 2; }).then(()=>print("@euX"));'],
     ["eu1"], ["euX"]),
]
CODES = [a[0] for a in _ACTORS]
N = len(_ACTORS)
MAX_POS = 4
END = 'print("end");'
CLOCK_TICKS = 30
CLOCK = '(function t(n){ print("#"+n); if (n < %d) Promise.resolve().then(()=>t(n+1)); })(0);' % CLOCK_TICKS


def actor_stmts(a, p):
    return [s.replace("@", str(p)) for s in _ACTORS[a][1]]


def actor_len(a):
    return len(_ACTORS[a][1])


def actor_ids(a, p):
    """(ids that must appear exactly once, ids that must never appear)"""
    return [str(p) + i for i in _ACTORS[a][2]], [str(p) + i for i in _ACTORS[a][3]]


def program(combo):
    """statements of the composition `combo` (tuple of actor indices)"""
    st = []
    for p, a in enumerate(combo):
        st += actor_stmts(a, p)
    st.append(END)
    return st


def text(stmts):
    return "\n".join(stmts)


def combos(k, alphabet=None):
    return itertools.product(alphabet if alphabet is not None else range(N), repeat=k)


def line_id(line):
    return line.split(" ", 1)[0].strip('"')


def expected_ids(combo):
    must, never = ["end"], []
    for p, a in enumerate(combo):
        m, n = actor_ids(a, p)
        must += m
        never += n
    return must, never


# ---------------------------------------------------------------------------------------------------
# splits
# ---------------------------------------------------------------------------------------------------
def cut_sets(n, full_upto=5, else_max=2):
    """non-empty sets of boundaries (1..n-1) of a program with n statements: every subset when n <= full_upto,
    otherwise every subset of at most else_max boundaries plus the finest split (all boundaries); deterministic order"""
    b = list(range(1, n))
    out = []
    top = len(b) if n <= full_upto else min(else_max, len(b))
    for r in range(1, top + 1):
        out += [list(c) for c in itertools.combinations(b, r)]
    if top < len(b):
        out.append(b)
    return out


def chunks_of(stmts, cuts):
    bounds = [0] + list(cuts) + [len(stmts)]
    return ["\n".join(stmts[bounds[i]:bounds[i + 1]]) for i in range(len(bounds) - 1)]


# ---------------------------------------------------------------------------------------------------
# schedules (dicts understood by the vc16 binary)
# ---------------------------------------------------------------------------------------------------
DRAINS = ["async", "restart", "mixed:1", "mixed:2", "sync"]


def budgets(tier):
    if tier == "thorough":
        return list(range(1, 65)) + [2 ** k for k in range(7, 21)]
    return list(range(1, 17))


def full_schedules(tier, bs=None):
    """the complete schedule set of one unsplit program: (i) sync; (ii) every budget of `bs` (default: all budgets of the
    tier), the drain mode cycling with the budget, plus budgets 1 and 2 crossed with every drain mode and a forced collection
    in every host turn; (iv) sync evaluation with every hand-driven drain mode"""
    s = [{"drain": "sync"}]
    seen = set()
    for b in (bs if bs is not None else budgets(tier)):
        d = DRAINS[b % len(DRAINS)]
        s.append({"b": b, "drain": d})
        seen.add((b, d))
    for b in (1, 2):
        for d in DRAINS:
            if (b, d) not in seen:
                s.append({"b": b, "drain": d})
    s.append({"b": 1, "drain": "async", "gc": True})
    s.append({"b": 5, "drain": "restart", "gc": True})
    for d in DRAINS[:-1]:
        s.append({"drain": d})
    return s


MID_BUDGETS = list(range(1, 33)) + [64, 1 << 10, 1 << 20]


def light_schedules():
    """the reduced schedule set used for the largest composition size of a tier"""
    return [{"drain": "sync"}, {"b": 1, "drain": "async"}, {"b": 2, "drain": "restart"}, {"b": 3, "drain": "mixed:1"},
            {"b": 16, "drain": "async"}]


def tiny_schedules():
    return [{"drain": "sync"}, {"b": 1, "drain": "restart"}]


def split_schedules(n, full_upto=5, else_max=2, variants=True):
    """(iii) every cut set with a synchronous drain at each boundary; with `variants` also the finest split evaluated with
    budget 1 / drained by a fresh future per turn, and the finest split WITHOUT a drain at the boundaries (separately
    evaluated scripts, one drain at the end: must equal the unsplit trace)"""
    cs = cut_sets(n, full_upto, else_max)
    s = [{"cuts": c, "drain": "sync"} for c in cs]
    if variants and n > 1:
        allc = list(range(1, n))
        s.append({"cuts": allc, "b": 1, "drain": "restart"})
        s.append({"cuts": allc, "b": 2, "drain": "async"})
        s.append({"cuts": allc, "drain": "sync", "mid": "none"})
        s.append({"cuts": allc, "b": 1, "drain": "async", "mid": "none"})
    return s


# ---------------------------------------------------------------------------------------------------
# FIFO merge model
# ---------------------------------------------------------------------------------------------------
# Actors of one program share nothing, and the job queue is FIFO, so by induction over generations (generation 0 = the
# synchronous code of a chunk, generation g+1 = the jobs enqueued by generation g) the lines of generation g are the
# generation-g lines of the first actor, then those of the second, ... .  The generation of every line of one actor (for a
# given pattern of cuts inside the actor) is read off a V8 run of that actor alone next to a clock — a self-rescheduling job
# that prints `#g` first in every generation (table c16-clock).
def clock_chunks(a, p, internal):
    """the single-actor program cut at `internal` (boundaries inside the actor, 1..len-1), a clock first in every chunk"""
    st = actor_stmts(a, p)
    return [CLOCK + "\n" + c for c in chunks_of(st, internal)]


def internal_patterns(a):
    n = actor_len(a)
    out = [[]]
    for r in range(1, n):
        out += [list(c) for c in itertools.combinations(range(1, n), r)]
    return out


def tag_lines(lines):
    """lines of one clocked chunk -> list over generations of the actor's lines"""
    gens = []
    for l in lines:
        if l.startswith('"#'):
            g = int(l.strip('"')[1:])
            if g != len(gens):
                raise ValueError("clock out of order: %r" % (lines,))
            gens.append([])
        else:
            if not gens:
                raise ValueError("line before the clock: %r" % (lines,))
            gens[-1].append(l)
    if len(gens) != CLOCK_TICKS + 1:
        raise ValueError("clock did not finish")
    if gens[-1] or gens[-2]:
        raise ValueError("actor outlives the clock")
    while gens and not gens[-1]:
        gens.pop()
    return gens


class MergeModel:
    def __init__(self, clock_table, sha12):
        """clock_table: hash of clock_chunks(...) -> V8 trace [[lines, completion] per chunk]"""
        self.pieces = {}
        for a in range(N):
            for p in range(MAX_POS):
                for pat in internal_patterns(a):
                    t = clock_table.get(sha12(clock_chunks(a, p, pat)))
                    if t is None:
                        raise KeyError("clock table lacks actor %s position %d cuts %s" % (CODES[a], p, pat))
                    self.pieces[(a, p, tuple(pat))] = [tag_lines(step[0]) for step in t]

    def expect(self, combo, cuts=()):
        """expected lines per chunk of the composition `combo` cut at `cuts`"""
        cuts = list(cuts)
        nchunks = len(cuts) + 1
        per_chunk = [[] for _ in range(nchunks)]  # list of generation lists, in actor order
        pos = 0
        for p, a in enumerate(combo):
            n = actor_len(a)
            inside = [c - pos for c in cuts if pos < c < pos + n]
            first_chunk = sum(1 for c in cuts if c <= pos)
            for k, gens in enumerate(self.pieces[(a, p, tuple(inside))]):
                per_chunk[first_chunk + k].append(gens)
            pos += n
        per_chunk[sum(1 for c in cuts if c <= pos)].append([['"end"']])
        out = []
        for pcs in per_chunk:
            lines = []
            for g in range(max([len(x) for x in pcs] + [0])):
                for gens in pcs:
                    if g < len(gens):
                        lines += gens[g]
            out.append(lines)
        return out
