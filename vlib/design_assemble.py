"""Authoring aid: (re)builds section 10 of DESIGN.md from out/design10_head.md, the generated tables, out/design10_tail.md and seeded/*/meta.json."""
import json, os, glob
from . import design_tables
ROOT = os.path.dirname(os.path.dirname(os.path.abspath(__file__)))


def seeded_table():
    rows = ["| seed | property | what the change does | what it needs to manifest | suite with the change | caught by (quick tier) |",
            "|------|----------|-----------------------|---------------------------|-----------------------|------------------------|"]
    for f in sorted(glob.glob(os.path.join(ROOT, "seeded", "*", "meta.json"))):
        m = json.load(open(f))
        rows.append("| %s | %s | %s | %s | %s | %s |" % (os.path.basename(os.path.dirname(f)), m.get("property"), m.get("summary", "")[:300].replace("|", "/"),
                                                      m.get("needs", "")[:200].replace("|", "/"), m.get("suite", "?"), m.get("caught_by", "?")))
    return "\n".join(rows)


def main():
    p = os.path.join(ROOT, "DESIGN.md")
    s = open(p).read()
    marker = "\n--------------------------------------------------------------------------------------------\n\n## 10. What was built (round 1)"
    if marker in s:
        s = s[:s.index(marker)]
    head = open(os.path.join(ROOT, "design10", "head.md")).read()
    tail = open(os.path.join(ROOT, "design10", "tail.md")).read()
    seeds = open(os.path.join(ROOT, "design10", "seeds.md")).read() if os.path.exists(os.path.join(ROOT, "design10", "seeds.md")) else ""
    s = s.rstrip("\n") + "\n" + head.rstrip("\n") + "\n\n" + design_tables.fixed_table() + "\n" + tail.rstrip("\n") + "\n\n### 10.7 Seeded changes and which checks catch them\n\n" + seeds + "\n" + seeded_table() + "\n"
    open(p, "w").write(s)
    print("DESIGN.md:", len(s.split("\n")), "lines")


if __name__ == "__main__":
    main()
