"""C13 reference: exact Number <-> text conversions over Python integers.

A finite double is sign * m * 2^e with integers m, e (m < 2^53).  Everything below is decided by exact integer
arithmetic; no float operation, `repr`, `float()` or `%` formatting takes part in an expected value (they are used only
by `selfcheck_*` helpers that cross-examine this module).

  decimal text -> double   : `str_to_bits`   (exact rational compared against the rounding boundary, ties to even)
  double -> shortest text  : `shortest`      (ECMA-262 Number::toString: smallest k, then closest, tie -> even digit)
  toFixed/toExponential/toPrecision : round the exact, finite decimal expansion of the double at the requested digit;
                             "if there are two such n, pick the larger n" == round half up on the magnitude
  toString(radix)          : exact expansion, only where the generalised Number::toString has exactly one answer
  parseInt(text, radix)    : the spec's steps with an exact integer, then one correct rounding

The `slow_*` functions are a second, independent transliteration of the spec text over `fractions.Fraction`
(salvaged from the design-round prototype); `c13.py` cross-checks fast against slow on a deterministic stride at run
time and the authoring-time validation compared both with V8.
"""
import re
from fractions import Fraction

MASK52 = (1 << 52) - 1
TWO52 = 1 << 52
TWO53 = 1 << 53
NAN_BITS = 0x7FF8000000000000
INF_BITS = 0x7FF0000000000000
SIGN = 1 << 63
DIGITS36 = "0123456789abcdefghijklmnopqrstuvwxyz"

# Perturbation switch used only by the sensitivity demonstration (see c13.py); "" = the real reference.
MUTATE = ""

_P10 = [1]


def p10(k):
    if k > 1200:
        return 10 ** k
    while len(_P10) <= k:
        _P10.append(_P10[-1] * 10)
    return _P10[k]


def classify(bits):
    """-> ('nan'|'inf'|'zero'|'fin', sign, m, e)  with |x| = m * 2^e for 'fin'."""
    s = bits >> 63
    ex = (bits >> 52) & 0x7FF
    fr = bits & MASK52
    if ex == 0x7FF:
        return ("nan" if fr else "inf", s, 0, 0)
    if ex == 0:
        if fr == 0:
            return ("zero", s, 0, 0)
        return ("fin", s, fr, -1074)
    return ("fin", s, fr | TWO52, ex - 1075)


def compose(m, e):
    """bits of the positive double m*2^e, m < 2^53, exactly representable (asserted)."""
    assert m > 0
    while m < TWO52 and e > -1074:
        m <<= 1
        e -= 1
    while m >= TWO53 or e < -1074:
        assert m & 1 == 0, "not representable"
        m >>= 1
        e += 1
    if m < TWO52:
        assert e == -1074
        return m
    assert e + 1075 < 0x7FF
    return ((e + 1075) << 52) | (m - TWO52)


def round_ratio(P, Q):
    """bits of the double nearest to P/Q (P >= 0, Q > 0 integers), ties to even, overflow -> +Infinity."""
    if P == 0:
        return 0
    b = P.bit_length() - Q.bit_length()  # 2^(b-1) < P/Q < 2^(b+1)
    e = max(b - 53, -1074)
    while True:
        if e >= 0:
            den = Q << e
            num = P
        else:
            den = Q
            num = P << (-e)
        m, r = divmod(num, den)
        if m >= TWO53:
            e += 1
            continue
        if m < TWO52 and e > -1074:
            e -= 1
            continue
        break
    twice = 2 * r
    if MUTATE == "parse-truncate":
        up = False
    elif MUTATE == "parse-half-up":
        up = twice >= den
    else:
        up = twice > den or (twice == den and (m & 1))
    if up:
        m += 1
        if m == TWO53:
            m = TWO52
            e += 1
    if m == 0:
        return 0
    if m < TWO52:
        return m  # subnormal, e == -1074
    if e > 971:
        return INF_BITS
    return ((e + 1075) << 52) | (m - TWO52)


def int_to_bits(n):
    """bits of the double nearest to the integer n (sign kept, -0 never produced)."""
    if n < 0:
        return SIGN | round_ratio(-n, 1)
    return round_ratio(n, 1)


# ---------------------------------------------------------------------------------------------------------
# decimal text -> double
# ---------------------------------------------------------------------------------------------------------
_DEC = re.compile(r"^([+-]?)(?:(Infinity)|(?:(\d+)(?:\.(\d*))?|\.(\d+))(?:[eE]([+-]?\d+))?)$")


def parse_decimal(s):
    """StrDecimalLiteral with optional sign -> (neg, N, q, nsig, ds) meaning (-1)^neg * N * 10^q, or ('inf', neg) / None."""
    m = _DEC.match(s)
    if not m:
        return None
    neg = m.group(1) == "-"
    if m.group(2):
        return ("inf", neg)
    if m.group(5) is not None:
        ip, fp = "", m.group(5)
    else:
        ip, fp = m.group(3), m.group(4) or ""
    ex = int(m.group(6)) if m.group(6) else 0
    digits = ip + fp
    ds = digits.lstrip("0")
    q = ex - len(fp)
    N = int(ds) if ds else 0
    nsig = len(ds.rstrip("0"))
    return (neg, N, q, nsig, ds)


def _scaled(N, q):
    return (N * p10(q), 1) if q >= 0 else (N, p10(-q))


_NONDEC = re.compile(r"^0(?:[xX]([0-9a-fA-F]+)|[oO]([0-7]+)|[bB]([01]+))$")


def nondecimal_value(s):
    """integer value of a NonDecimalIntegerLiteral text (0x / 0o / 0b, no sign, no separators) or None"""
    m = _NONDEC.match(s)
    if not m:
        return None
    if m.group(1):
        return int(m.group(1), 16)
    if m.group(2):
        return int(m.group(2), 8)
    return int(m.group(3), 2)


def str_to_bits(s):
    """Correctly rounded StringNumericValue of a StrDecimalLiteral or NonDecimalIntegerLiteral (no whitespace handling);
    None if the text is neither."""
    nd = nondecimal_value(s)
    if nd is not None:
        return round_ratio(nd, 1)
    p = parse_decimal(s)
    if p is None:
        return None
    if p[0] == "inf":
        return INF_BITS | (SIGN if p[1] else 0)
    neg, N, q, nsig, ds = p
    P, Q = _scaled(N, q)
    return round_ratio(P, Q) | (SIGN if neg else 0)


def str_to_bits_allowed(s):
    """Set of results ECMA-262 permits: the correctly rounded value, and - only when the text has more than 20
    significant digits - the values of the text with every significant digit after the 20th replaced by 0, and that
    incremented at the 20th digit."""
    nd = nondecimal_value(s)
    if nd is not None:
        return {round_ratio(nd, 1)}
    p = parse_decimal(s)
    if p is None:
        return None
    if p[0] == "inf":
        return {INF_BITS | (SIGN if p[1] else 0)}
    neg, N, q, nsig, ds = p
    sg = SIGN if neg else 0
    P, Q = _scaled(N, q)
    out = {round_ratio(P, Q) | sg}
    if nsig > 20:
        unit = p10(len(ds) - 20)
        T = int(ds[:20]) * unit
        for v in (T, T + unit):
            P, Q = _scaled(v, q)
            out.add(round_ratio(P, Q) | sg)
    return out


# ---------------------------------------------------------------------------------------------------------
# exact decimal expansion of a double
# ---------------------------------------------------------------------------------------------------------
def exact_decimal(m, e):
    """(D, n): m*2^e = 0.D * 10^n, D without leading/trailing zeros."""
    if e >= 0:
        D = str(m << e)
        n = len(D)
    else:
        D = str(m * 5 ** (-e))
        n = len(D) + e
    return D.rstrip("0"), n


class Val:
    """A double with its exact decimal expansion cached."""
    __slots__ = ("bits", "kind", "neg", "m", "e", "D", "n", "_sh")

    def __init__(self, bits):
        self.bits = bits
        self.kind, s, self.m, self.e = classify(bits)
        self.neg = bool(s)
        self._sh = None
        if self.kind == "fin":
            self.D, self.n = exact_decimal(self.m, self.e)
        else:
            self.D, self.n = "", 0

    def shortest(self):
        if self._sh is None:
            self._sh = shortest(self.m, self.e, self.D, self.n)
        return self._sh


def shortest(m, e, D=None, n=None, radix=10):
    """Generalised Number::toString digit selection for x = m*2^e > 0 in `radix`:
    smallest k such that some s*radix^(nn-k), radix^(k-1) <= s < radix^k, rounds (nearest, ties to even) to x; among those
    the s closest to x; of two equally close the even one.  -> (s_best, k, nn, [all admissible s for that k]).
    nn is such that radix^(nn-1) <= s*radix^(nn-k) < radix^nn."""
    if radix == 10:
        if D is None:
            D, n = exact_decimal(m, e)
        pw = p10
    else:
        # n = smallest integer with radix^n > x
        def pw(k, r=radix):
            return r ** k
        n = 0
        if e >= 0:
            X0 = m << e
            while pw(n) <= X0:
                n += 1
        else:
            den = 1 << (-e)
            while pw(n) * den <= m:
                n += 1
            if n == 0:
                while m * pw(1 - n) < den:  # x < radix^(n-1)
                    n -= 1
    normal_boundary = (m == TWO52 and e > -1074)
    E = e - 2
    X = 4 * m
    LO = X - (1 if normal_boundary else 2)
    HI = X + 2
    incl = (m & 1) == 0
    twoE_pos = 1 << E if E > 0 else 1
    twoE_neg = 1 << (-E) if E < 0 else 1
    kmax = 17 if radix == 10 else 1100
    for k in range(1, kmax + 1):
        q = n - k
        if q >= 0:
            G = pw(q) * twoE_neg
            A = twoE_pos
        else:
            G = twoE_neg
            A = pw(-q) * twoE_pos
        lo = LO * A
        hi = HI * A
        smin, r = divmod(lo, G)
        if r or not incl:
            smin += 1
        smax, r = divmod(hi, G)
        if r == 0 and not incl:
            smax -= 1
        if smin > smax:
            continue
        xs = X * A
        best = None
        for s in range(smin, smax + 1):
            d = abs(s * G - xs)
            if MUTATE == "shortest-first":
                key = (s,)
            else:
                key = (d, s & 1)
            if best is None or key < best[0]:
                best = (key, s)
        s = best[1]
        cands = list(range(smin, smax + 1))
        top = pw(k)
        nn = n
        if s >= top:  # only k == 1, s == radix: the value radix^n itself
            s //= radix
            nn = n + 1
        return s, k, nn, cands
    raise AssertionError("no shortest representation found")


def _digits(v):
    """(digits string, n) of the shortest representation: x = 0.digits * 10^n."""
    s, k, nn, _ = v.shortest()
    return str(s), nn


def js_tostring(v):
    if v.kind == "nan":
        return "NaN"
    if v.kind == "zero":
        return "0"
    if v.kind == "inf":
        return "-Infinity" if v.neg else "Infinity"
    s, n = _digits(v)
    return ("-" if v.neg else "") + _layout_tostring(s, n)


def _layout_tostring(s, n):
    k = len(s)
    if k <= n <= 21:
        return s + "0" * (n - k)
    if 0 < n <= 21:
        return s[:n] + "." + s[n:]
    if -6 < n <= 0:
        return "0." + "0" * (-n) + s
    e = n - 1
    es = ("+" if e >= 0 else "-") + str(abs(e))
    if k == 1:
        return s + "e" + es
    return s[0] + "." + s[1:] + "e" + es


def _round_sig(D, p):
    """first p significant digits of 0.D rounded half up -> (p-digit string, carry into a new leading digit)."""
    if len(D) <= p:
        return D + "0" * (p - len(D)), 0
    head = D[:p]
    nxt = D[p]
    if MUTATE == "tie-even":
        # round half to even on the exact expansion (what Rust's {:.N$e} does)
        if nxt > "5" or (nxt == "5" and (len(D) > p + 1 or int(head[-1]) & 1)):
            up = True
        else:
            up = False
    else:
        up = nxt >= "5"
    if up:
        h = str(int(head) + 1)
        if len(h) > p:
            return "1" + "0" * (p - 1), 1
        return h.rjust(p, "0"), 0
    return head, 0


def js_tofixed(v, f):
    if v.kind == "nan":
        return "NaN"
    if v.kind == "inf":
        return "-Infinity" if v.neg else "Infinity"
    if v.kind == "zero":
        return "0" if f == 0 else "0." + "0" * f
    if v.n > 21:  # x >= 10^21
        return js_tostring(v)
    D, n = v.D, v.n
    pos = n + f  # number of digits of D in the integer part of x*10^f
    if pos < 0:
        N = 0
    elif pos == 0:
        N = 1 if D[0] >= "5" else 0
        if MUTATE == "tie-even" and D == "5":
            N = 0
    else:
        if len(D) <= pos:
            N = int(D + "0" * (pos - len(D)))
        else:
            d, c = _round_sig(D, pos)
            N = p10(pos) if c else int(d)
    ms = str(N)
    if f:
        k = len(ms)
        if k <= f:
            ms = "0" * (f + 1 - k) + ms
            k = f + 1
        ms = ms[:k - f] + "." + ms[k - f:]
    return ("-" if v.neg else "") + ms


def js_toexponential(v, f):
    """f is None for `undefined`."""
    if v.kind == "nan":
        return "NaN"
    if v.kind == "inf":
        return "-Infinity" if v.neg else "Infinity"
    sg = "-" if v.neg else ""
    if v.kind == "zero":
        sg = ""  # the spec tests x < 0, which -0 is not
        ms = "0" * ((f or 0) + 1)
        e = 0
    elif f is None:
        ms, n = _digits(v)
        e = n - 1
    else:
        ms, c = _round_sig(v.D, f + 1)
        e = v.n - 1 + c
    if len(ms) > 1:
        ms = ms[0] + "." + ms[1:]
    return sg + ms + "e" + ("+" if e >= 0 else "-") + str(abs(e))


def js_toexponential_undefined_allowed(v):
    """All strings the spec admits for toExponential(undefined): the digit count is fixed, the last digit 'is not
    necessarily uniquely determined'."""
    if v.kind != "fin":
        return {js_toexponential(v, None)}
    s, k, nn, cands = v.shortest()
    out = set()
    for c in cands:
        if not (p10(k - 1) <= c < p10(k)):
            continue
        ms = str(c)
        e = nn - 1
        if len(ms) > 1:
            ms = ms[0] + "." + ms[1:]
        out.add(("-" if v.neg else "") + ms + "e" + ("+" if e >= 0 else "-") + str(abs(e)))
    out.add(js_toexponential(v, None))
    return out


def js_toprecision(v, p):
    if v.kind == "nan":
        return "NaN"
    if v.kind == "inf":
        return "-Infinity" if v.neg else "Infinity"
    sg = "-" if v.neg else ""
    if v.kind == "zero":
        sg = ""
        ms = "0" * p
        e = 0
    else:
        ms, c = _round_sig(v.D, p)
        e = v.n - 1 + c
        if e < -6 or e >= p:
            if p != 1:
                ms = ms[0] + "." + ms[1:]
            return sg + ms + "e" + ("+" if e >= 0 else "-") + str(abs(e))
    if e == p - 1:
        return sg + ms
    if e >= 0:
        return sg + ms[:e + 1] + "." + ms[e + 1:]
    return sg + "0." + "0" * (-(e + 1)) + ms


# ---------------------------------------------------------------------------------------------------------
# radix conversions
# ---------------------------------------------------------------------------------------------------------
def int_to_radix(n, r):
    if n == 0:
        return "0"
    out = []
    while n:
        n, d = divmod(n, r)
        out.append(DIGITS36[d])
    return "".join(reversed(out))


_POW2 = {2: 1, 4: 2, 8: 3, 16: 4, 32: 5}


def _v2(r):
    c = 0
    while r % 2 == 0:
        r //= 2
        c += 1
    return c


def js_toradix(v, r):
    """x.toString(r), r != 10, or None when the generalisation of Number::toString does not single out the exact
    expansion (then nothing is demanded).  Determined cases:
      * r a power of two: every double (a shorter digit string is itself a double, so cannot round to x);
      * other r: integers of magnitude <= 2^53, and dyadic fractions whose exact expansion in r is finite and has
        exactly the minimal number of digits that `shortest(radix=r)` finds."""
    if v.kind == "nan":
        return "NaN"
    if v.kind == "inf":
        return "-Infinity" if v.neg else "Infinity"
    if v.kind == "zero":
        return "0"
    m, e = v.m, v.e
    sg = "-" if v.neg else ""
    if e >= 0:
        I, fnum, fbits = m << e, 0, 0
    else:
        I, fnum, fbits = m >> (-e), m & ((1 << (-e)) - 1), -e
    if fnum == 0:
        if r in _POW2 or I <= TWO53:
            return sg + int_to_radix(I, r)
        return None
    # strip trailing zero bits of the fraction
    while fnum & 1 == 0:
        fnum >>= 1
        fbits -= 1
    if r in _POW2:
        b = _POW2[r]
        pad = (-fbits) % b
        nd = (fbits + pad) // b
        fs = int_to_radix(fnum << pad, r).rjust(nd, "0")
        return sg + int_to_radix(I, r) + "." + fs
    t = _v2(r)
    if t == 0 or I > TWO53:
        return None
    nd = -(-fbits // t)  # digits after the point of the exact expansion
    num = fnum * r ** nd
    assert num % (1 << fbits) == 0
    fs = int_to_radix(num >> fbits, r).rjust(nd, "0")
    assert not fs.endswith("0")
    exact = int_to_radix(I, r) + "." + fs
    sig = (int_to_radix(I, r) + fs).lstrip("0")
    s, k, nn, cands = shortest(m, e, radix=r)
    if k != len(sig):
        return None
    assert int_to_radix(s, r) == sig, (exact, s, k)
    return sg + exact


_WS = "\t\n\v\f\r \u00a0\u1680\u2000\u2001\u2002\u2003\u2004\u2005\u2006\u2007\u2008\u2009\u200a\u2028\u2029\u202f\u205f\u3000\ufeff"


def js_parseint(s, r):
    """parseInt(s, r) per ECMA-262 with an exact mathInt.  -> (bits, allowed_bits_set or None).
    allowed is None when the spec lets the implementation approximate and the exact value is not a safe integer
    (R not in 2,4,8,10,16,32); for R = 10 with more than 20 significant digits it contains the permitted alternative."""
    s = s.lstrip(_WS)
    sign = 1
    if s[:1] == "-":
        sign = -1
    if s[:1] in ("+", "-") and s:
        s = s[1:]
    strip = True
    if r != 0:
        if r < 2 or r > 36:
            return NAN_BITS, {NAN_BITS}
        if r != 16:
            strip = False
    else:
        r = 10
    if strip and s[:2] in ("0x", "0X"):
        s = s[2:]
        r = 16
    end = 0
    allowed = DIGITS36[:r]
    low = s.lower()
    while end < len(s) and low[end] in allowed and s[end].isascii():
        end += 1
    z = low[:end]
    if not z:
        return NAN_BITS, {NAN_BITS}
    n = int(z, r)
    sg = SIGN if sign < 0 else 0
    if n == 0:
        return sg, {sg}
    exact = round_ratio(n, 1) | sg
    if r in (2, 4, 8, 16, 32):
        return exact, {exact}
    if r == 10:
        zs = z.lstrip("0")
        out = {exact}
        if len(zs.rstrip("0")) > 20:
            out.add(round_ratio(int(zs[:20]) * p10(len(zs) - 20), 1) | sg)
        return exact, out
    if n <= TWO53:
        return exact, {exact}
    return exact, None


# ---------------------------------------------------------------------------------------------------------
# slow, independent transliteration of the spec text (Fractions).  Used to cross-examine the fast path.
# ---------------------------------------------------------------------------------------------------------
def _frac(v):
    return Fraction(v.m) * (Fraction(2) ** v.e)


def _pick_e_n(fx, p):
    """e, n with 10^(p-1) <= n < 10^p and n*10^(e-p+1) - x as close to zero as possible; of two, the larger."""
    # exponent estimate from the integer/fraction sizes, then exact search over the neighbours
    e0 = 0
    while Fraction(10) ** (e0 + 1) <= fx:
        e0 += 1
    while Fraction(10) ** e0 > fx:
        e0 -= 1
    best = None
    for ee in (e0 - 1, e0, e0 + 1):
        scale = Fraction(10) ** (ee - p + 1)
        qv = fx / scale
        fl = qv.numerator // qv.denominator
        for n in (fl, fl + 1):
            if 10 ** (p - 1) <= n < 10 ** p:
                val = n * scale
                cand = (abs(val - fx), -val, ee, n)
                if best is None or cand < best:
                    best = cand
    return best[2], best[3]


def slow_tofixed(v, f):
    if v.kind != "fin":
        return js_tofixed(v, f)
    fx = _frac(v)
    if fx >= 10 ** 21:
        return js_tostring(v)
    t = fx * 10 ** f
    fl = t.numerator // t.denominator
    n = fl + (1 if t - fl >= Fraction(1, 2) else 0)
    ms = str(n)
    if f:
        k = len(ms)
        if k <= f:
            ms = "0" * (f + 1 - k) + ms
            k = f + 1
        ms = ms[:k - f] + "." + ms[k - f:]
    return ("-" if v.neg else "") + ms


def slow_toexponential(v, f):
    if v.kind != "fin" or f is None:
        return js_toexponential(v, f)
    e, n = _pick_e_n(_frac(v), f + 1)
    ms = str(n)
    if f:
        ms = ms[0] + "." + ms[1:]
    return ("-" if v.neg else "") + ms + "e" + ("+" if e >= 0 else "-") + str(abs(e))


def slow_toprecision(v, p):
    if v.kind != "fin":
        return js_toprecision(v, p)
    sg = "-" if v.neg else ""
    e, n = _pick_e_n(_frac(v), p)
    ms = str(n)
    if e < -6 or e >= p:
        if p != 1:
            ms = ms[0] + "." + ms[1:]
        return sg + ms + "e" + ("+" if e >= 0 else "-") + str(abs(e))
    if e == p - 1:
        return sg + ms
    if e >= 0:
        return sg + ms[:e + 1] + "." + ms[e + 1:]
    return sg + "0." + "0" * (-(e + 1)) + ms


def slow_shortest_ok(v):
    """Independent examination of `shortest` (radix 10): the chosen digits round to x; no (k-1)-digit decimal does;
    no other k-digit decimal is closer.  Uses round_ratio only."""
    s, k, nn, cands = v.shortest()
    q = nn - k

    def rt(sv, qq):
        P, Q = _scaled(sv, qq)
        return round_ratio(P, Q)
    pos = v.bits & ~SIGN
    if rt(s, q) != pos:
        return False
    fx = _frac(v)
    d = abs(Fraction(s) * Fraction(10) ** q - fx)
    for t in (s - 1, s + 1):
        if 10 ** (k - 1) <= t < 10 ** k and rt(t, q) == pos:
            dt = abs(Fraction(t) * Fraction(10) ** q - fx)
            if dt < d or (dt == d and t % 2 == 0 and s % 2 == 1):
                return False
    if k > 1:
        t = fx / Fraction(10) ** (q + 1)
        fl = t.numerator // t.denominator
        for c in (fl, fl + 1):
            if c > 0 and rt(c, q + 1) == pos:
                return False
    return True


# ---------------------------------------------------------------------------------------------------------
# helpers for cross-examination against the host Python (authoring-time and run-time sentinels; never an oracle)
# ---------------------------------------------------------------------------------------------------------
def host_float_bits(s):
    import struct
    try:
        x = float(s)
    except (ValueError, OverflowError):
        return None
    return struct.unpack("<Q", struct.pack("<d", x))[0]


def host_repr_digits(bits):
    import struct
    x = struct.unpack("<d", struct.pack("<Q", bits & ~SIGN))[0]
    r = repr(x)
    mant, _, ex = r.partition("e")
    ex = int(ex) if ex else 0
    ip, _, fp = mant.partition(".")
    allz = ip + fp
    lead = len(allz) - len(allz.lstrip("0"))
    n = len(ip) - lead + ex
    return allz.lstrip("0").rstrip("0") or "0", n
