"""Authoring helper (never used by the check): run C07 with an empty known table and write the violations, grouped by
root-cause class, to /verif/findings/C07-<class>.list (+ the `known-list:` lines of /verif/findings/C07.known).

    cd /verif && python3 -m vlib.c07_mklists quick|thorough [--merge]

--merge keeps the entries already present in the list files (use it when adding the thorough-only identities).
Every line must still be triaged by hand: a class here is a claim about a site in boa (see findings/C07.known).
"""
import json, os, sys
from . import core
from .checks import c07

CLASSES = {
    "throw-across-frames": "handle_throw: exit_early arm inside the unwinding loop returns without truncating (vm/mod.rs:939)",
    "limit-unwind": "handle_error: uncatchable (limit) errors unwind to the exit-early frame but leave that frame's own slots (vm/mod.rs:841)",
    "module-link": "SourceTextModule::initialize_environment pops its frame without truncate_to_frame (module/source.rs:1922)",
    "early-return": "JsObject::call/construct `?` after pushing this/func/args; function_call/function_construct/native_function_construct fail before consuming them",
    "gdi-failure": "Script::prepare_run: GlobalDeclarationInstantiation failure pops the frame but not its slots (script.rs:236)",
    "catch-in-frame": "handle_exception_at does not cut the value stack back when a handler catches (vm/mod.rs:651, 935)",
    "panic": "Rust panic / engine panic",
    "differential-other": "differential violations whose minimal history has more than one entry",
}


def class_of(v, depth_site_of_kind):
    case = v["case"]
    o = case["oracle"]
    if o == "depth":
        s = c07.site_of(case["entry"], case["step"], case["completion"], v["observed"]["delta"])
        return {"module": "module-link", "call-early-return": "early-return", "construct-early-return": "early-return",
                "probe": "limit-unwind"}.get(s, s)
    if o == "designed":
        return {"ev_slen_class": "early-return", "ev_slen_eval_edi": "gdi-failure"}.get(case["entry"], "catch-in-frame")
    if o == "no-panic":
        return "panic"
    if o == "differential":
        h = case["hist"]
        if len(h) == 1:
            return depth_site_of_kind.get(h[0], "catch-in-frame")
        for k in h:
            if k in depth_site_of_kind:
                return depth_site_of_kind[k]
        return "differential-other"
    raise SystemExit(f"unclassified {case}")


def main():
    tier = sys.argv[1]
    merge = "--merge" in sys.argv
    core.build(packages=c07.PACKAGES)
    chk = core.Check("C07", tier)
    chk.findings.known = {}
    c07.run(chk)
    vs = [json.load(open(v["path"])) for v in chk.violations]
    site = {}
    for v in vs:
        if v["case"]["oracle"] == "depth":
            site.setdefault(v["case"]["entry"], class_of(v, {}))
    by = {}
    for v in vs:
        by.setdefault(class_of(v, site), []).append(v)
    fdir = os.path.join(core.ROOT, "findings")
    for cls in CLASSES:
        path = os.path.join(fdir, f"C07-{cls}.list")
        lines = {}
        if merge and os.path.exists(path):
            for l in open(path):
                p = l.split()
                if len(p) >= 2:
                    lines[(p[0], p[1])] = l.rstrip("\n")
        for v in by.get(cls, []):
            lines[(v["case_key"], v["observed_key"])] = f"{v['case_key']} {v['observed_key']} {v['what'].split('; shortest witness')[0][:220]}"
        if lines:
            with open(path, "w") as f:
                for k in sorted(lines, key=lambda k: lines[k].split(" ", 2)[2]):
                    f.write(lines[k] + "\n")
        print(f"{cls:22s} {len(lines):5d} entries")
    chk.finish()


if __name__ == "__main__":
    main()
