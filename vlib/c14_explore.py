"""C14 explorer: level-wise explicit-state search over array operation histories (E2).

State = the history that first reached it (seed index, tuple of op indices); states are merged on the key
(logical dump, storage kind).  Every transition is executed on the real engine (`T(s,h,k)` of the kit); the explorer
only enumerates, groups and compares.  The same search can be executed on V8 (authoring) through `golden.run_node`
(there the storage kind is the constant "?", so states merge on the logical dump alone).

Expansion rule (identical on both engines, independent of the order in which states are met): all operations of the
alphabet are executed from every expanded state; a state reached at level L is expanded at level L iff it has not been
expanded before and at least one transition into it at this level used an operation of `expand[L-1]`.
"""
import re
from . import core
from . import c14_kit as K

KIT = K.kit_source()
KIT_HASH = core.sha12(KIT)
# Inline caches are OFF in the main exploration: on this tree a warm `a.length = n` (inline-cache hit of
# SetPropertyByName) writes the length slot without ArraySetLength; that defect is reported by the separate warm-cache
# family of the check and would otherwise corrupt every replayed history that contains a length store.
CFG = {"mode": "I"}
LEN_RE = re.compile(r"(?:^|[{ ])length:(\d+)")
BATCH = 3200  # states per run_jobs call (bounds the memory of the driver)


def dump_len(dump):
    m = LEN_RE.search(dump)
    return int(m.group(1)) if m else 0


def applicable(dump, alphabet):
    """Operations applied from a state: all of the alphabet, except that arrays with length >= 2^31 only get the
    O(1) operations (builtin loops are not covered by the loop limit)."""
    if dump_len(dump) >= K.HUGE:
        return [k for k in alphabet if K.OPS[k]["o1"]]
    return list(alphabet)


def jsh(h):
    return "[" + ",".join(str(k) for k in h) + "]"


def state_job(s, h, ops, cfg=None):
    return {"hist": [KIT, "Z(%d,%s)" % (s, jsh(h))] + ["T(%d,%s,%d)" % (s, jsh(h), k) for k in ops],
            "cfg": dict(CFG if cfg is None else cfg)}


def parse_step(step):
    """-> (observation lines without S/P/T, storage, proxy line, twin line, completion)"""
    obs, sto, px, tw = [], None, None, None
    for raw in step.get("lines", []):
        if raw.startswith(("P! ", "T! ")):
            parts = [raw]
        else:
            parts = raw.split("\n")
        for l in parts:
            if l.startswith("S "):
                sto = l[2:].strip('"')
            elif l.startswith(("P=", "P! ")):
                px = l
            elif l.startswith(("T=", "T-", "T! ")):
                tw = l
            else:
                obs.append(l)
    return obs, sto, px, tw, step.get("completion")


def obs_dump(obs):
    for l in reversed(obs):
        if l.startswith("D "):
            return l[2:]
    return None


def encode_obs(obs, pre_dump):
    """Compact text of an observation for the golden table: the final dump is written `D =` when unchanged."""
    out = list(obs)
    if out and out[-1] == "D " + pre_dump:
        out[-1] = "D ="
    return "\n".join(out)


class Transition:
    __slots__ = ("s", "h", "k", "obs", "sto", "px", "tw", "comp", "pre")

    def __init__(self, s, h, k, obs, sto, px, tw, comp, pre):
        self.s, self.h, self.k, self.obs, self.sto, self.px, self.tw, self.comp, self.pre = s, h, k, obs, sto, px, tw, comp, pre

    def name(self):
        return "%s + [%s] => %s" % (K.SEEDS[self.s][0], ", ".join(K.OPNAME[x] for x in self.h), K.OPNAME[self.k])


def boa_runner(jobs, single=False):
    # starting a vrun process costs ~0.7 cpu-s (first context of a process), so use few, large chunks
    return core.run_jobs(jobs, chunk=1) if single else core.run_jobs(jobs, chunk=max(1, (len(jobs) + 2 * core.NPROC - 1) // (2 * core.NPROC)))


def node_runner(jobs, single=False):
    """(authoring) the same hist jobs on V8 through oracle/c14_node_runner.js (one vm context per job)."""
    import json, os, shutil, subprocess
    from concurrent.futures import ThreadPoolExecutor
    d = os.path.join(core.OUT, "tmp", "c14node%d" % os.getpid())
    os.makedirs(d, exist_ok=True)
    n = max(1, (len(jobs) + 2 * core.NPROC - 1) // (2 * core.NPROC))
    chunks = [jobs[i:i + n] for i in range(0, len(jobs), n)]

    def one(ic):
        i, c = ic
        a, b = os.path.join(d, "in%d.jsonl" % i), os.path.join(d, "out%d.jsonl" % i)
        with open(a, "w") as f:
            for j in c:
                f.write(json.dumps({"hist": j["hist"]}) + "\n")
        p = subprocess.run(["node", os.path.join(core.ROOT, "oracle", "c14_node_runner.js"), a, b], capture_output=True, text=True)
        if p.returncode != 0:
            raise core.MachineryError("node failed: " + p.stderr[-2000:])
        return [json.loads(l) for l in open(b) if l.strip()]
    with ThreadPoolExecutor(max_workers=core.NPROC) as ex:
        parts = list(ex.map(one, enumerate(chunks)))
    shutil.rmtree(d, ignore_errors=True)
    res = [r for p in parts for r in p]
    assert len(res) == len(jobs)
    return res


def run_states(states, alphabet, runner, cfg=None, check_drift=True):
    """states: list of (s, h, dump, storage).  Returns (list of Transition, list of problems).
    problem = (kind, s, h, k, detail); kinds: kit, replay-drift, missing-step."""
    jobs, plans = [], []
    for (s, h, dump, sto) in states:
        ops = applicable(dump, alphabet)
        jobs.append(state_job(s, h, ops, cfg))
        plans.append(ops)
    res = runner(jobs)
    # a job that was cut by the worker's wall cap (machine under load) is re-run alone, twice at most
    for _ in range(2):
        redo = [i for i, (r, ops) in enumerate(zip(res, plans)) if len(r.get("steps", [])) < len(ops) + 2
                and not any(core.is_bad(st.get("completion")) and not str(st.get("completion")).startswith("Hang")
                            for st in r.get("steps", []))]
        if not redo:
            break
        for i, r in zip(redo, runner([jobs[i] for i in redo], single=True)):
            res[i] = r
    out, problems = [], []
    for (s, h, dump, sto), ops, r in zip(states, plans, res):
        steps = r.get("steps", [])
        if len(steps) < 2 or not str(steps[0].get("completion")).startswith("Value"):
            problems.append(("kit", s, h, None, str(steps[:1] or r)[:300]))
            continue
        zobs, zsto, _, _, zc = parse_step(steps[1])
        zd = obs_dump(zobs)
        if check_drift and dump is not None and (zd != dump or (sto is not None and zsto != sto)):
            problems.append(("replay-drift", s, h, None, [dump, sto, zd, zsto]))
        for i, k in enumerate(ops):
            if i + 2 >= len(steps):
                problems.append(("missing-step", s, h, k, str(steps[-1])[:300]))
                break
            obs, tsto, px, tw, comp = parse_step(steps[i + 2])
            out.append(Transition(s, h, k, obs, tsto, px, tw, comp, (zd, zsto)))
    return out, problems


def explore(depth, expand, runner, on_transition, alphabet=None, seeds=None, cfg=None, progress=None):
    """BFS of `depth` levels of transitions.  expand[L] = set of op indices whose target states are expanded at level
    L+1 (L = 0 .. depth-2).  on_transition(t, level) is called for every executed transition, in deterministic order.
    Returns the bookkeeping dict (no transitions are retained)."""
    alphabet = list(range(len(K.OPS))) if alphabet is None else alphabet
    seeds = list(range(len(K.SEEDS))) if seeds is None else seeds
    zjobs = [{"hist": [KIT, "Z(%d,[])" % s], "cfg": dict(CFG if cfg is None else cfg)} for s in seeds]
    zres = runner(zjobs)
    known = {}          # (dump, storage) -> (s, h, level)
    expanded = set()
    expanded_hist = []  # (s, h, dump, storage) of every expanded state
    seedinfo, problems, frontier = [], [], []
    for s, r in zip(seeds, zres):
        steps = r.get("steps", [])
        if len(steps) < 2 or not str(steps[1].get("completion")).startswith("Value"):
            problems.append(("seed", s, (), None, str(steps or r)[:300]))
            continue
        obs, sto, _, _, comp = parse_step(steps[1])
        d = obs_dump(obs)
        seedinfo.append((s, d, sto))
        key = (d, sto)
        if key not in known:
            known[key] = (s, (), 0)
            expanded.add(key)
        # every seed history is expanded, also when another seed already reached the same (dump, storage kind)
        frontier.append((s, (), d, sto))
    expanded_hist += frontier
    per_level = [{"level": 0, "new_states": len(known), "expanded": len(frontier), "transitions": 0}]
    for lvl in range(depth):
        elig = None if lvl >= depth - 1 else set(expand[lvl])
        cand = {}       # key -> (s, h)   first eligible history in enumeration order
        ntr = 0
        new_states = 0
        for b in range(0, len(frontier), BATCH):
            trs, probs = run_states(frontier[b:b + BATCH], alphabet, runner, cfg)
            problems += probs
            for t in trs:
                ntr += 1
                on_transition(t, lvl)
                nd = obs_dump(t.obs)
                if nd is None:
                    continue
                key = (nd, t.sto)
                if key not in known:
                    known[key] = (t.s, t.h + (t.k,), lvl + 1)
                    new_states += 1
                if elig is not None and t.k in elig and key not in expanded and key not in cand:
                    cand[key] = (t.s, t.h + (t.k,))
            if progress:
                progress(lvl, min(b + BATCH, len(frontier)), len(frontier))
        frontier = [(s, h, key[0], key[1]) for key, (s, h) in cand.items()]
        expanded.update(cand.keys())
        expanded_hist += frontier
        per_level.append({"level": lvl + 1, "new_states": new_states, "expanded": len(frontier), "transitions": ntr})
    return {"known": known, "expanded": expanded, "problems": problems, "seedinfo": seedinfo, "per_level": per_level,
            "expanded_hist": expanded_hist[:len(expanded_hist) - len(frontier)]}
