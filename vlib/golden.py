"""Golden tables derived from V8 (authoring time only) and their lookup at check time.

Table file: oracle/<name>.golden.gz, lines `<sha12 of program text>\t<json trace>`.
At check time the check re-enumerates its family, looks every program up by text hash (a missing hash is a machinery
error: the enumeration drifted from the committed table) and compares traces.
"""
import gzip, json, os, subprocess, sys, shutil
from concurrent.futures import ThreadPoolExecutor
from . import core

ORACLE = os.path.join(core.ROOT, "oracle")


def node_available():
    return shutil.which("node") is not None


def run_node(items, nproc=16):
    """items: list of {"src":..} or {"hist":[..]}; returns list of traces from V8."""
    d = os.path.join(core.OUT, "tmp", "node%d" % os.getpid())
    os.makedirs(d, exist_ok=True)
    chunk = max(1, (len(items) + nproc * 2 - 1) // (nproc * 2))
    chunks = [items[i:i + chunk] for i in range(0, len(items), chunk)]

    def one(ic):
        i, c = ic
        a, b = os.path.join(d, f"in{i}.jsonl"), os.path.join(d, f"out{i}.jsonl")
        with open(a, "w") as f:
            for it in c:
                f.write(json.dumps(it) + "\n")
        p = subprocess.run(["node", os.path.join(ORACLE, "gen_golden.js"), a, b], capture_output=True, text=True)
        if p.returncode != 0:
            raise core.MachineryError("node failed: " + p.stderr[-2000:])
        return [json.loads(l) for l in open(b) if l.strip()]
    with ThreadPoolExecutor(max_workers=nproc) as ex:
        parts = list(ex.map(one, enumerate(chunks)))
    shutil.rmtree(d, ignore_errors=True)
    res = [r for p in parts for r in p]
    assert len(res) == len(items)
    return res


def write_table(name, progs, traces):
    path = os.path.join(ORACLE, name + ".golden.gz")
    with gzip.open(path, "wt", compresslevel=9) as f:
        for p, t in zip(progs, traces):
            f.write(core.sha12(p) + "\t" + json.dumps(t, separators=(",", ":")) + "\n")
    return path


def load_table(name):
    path = os.path.join(ORACLE, name + ".golden.gz")
    tab = {}
    if not os.path.exists(path):
        return None
    with gzip.open(path, "rt") as f:
        for l in f:
            h, t = l.rstrip("\n").split("\t", 1)
            tab[h] = json.loads(t)
    return tab


def load_overrides():
    """oracle/overrides.jsonl: {"hash":..., "trace":..., "why": spec clause} — consulted before the table."""
    path = os.path.join(ORACLE, "overrides.jsonl")
    o = {}
    if os.path.exists(path):
        for l in open(path):
            if l.strip():
                j = json.loads(l)
                o[j["hash"]] = j
    return o
